"""W-suite: the repository's own tests, run in-process by pytest inside a shard with the cheap online monitors installed.

The tests supply operation sequences and element pairs that our generators do not (seeded Doerfler loops, parametrised meshes,
estimator runs); the monitors judge every event they see. A monitor that fires here is read before anything is relaxed.
"""
import os

from .. import env
from ..monitor import wrap_method
from ..oracles import refmesh as rm


def grids_of(mesh):
    ts = sorted({v.t for r in mesh.roots for v in r.vertices})
    xs = sorted({v.x for r in mesh.roots for v in r.vertices})
    return ts, xs


def run_suite(acc, focus, files, k_filter=None):
    import pytest
    from src.mesh import Mesh
    from src.single_layer import SingleLayerOperator
    state = {'ops': 0, 'checked': 0, 'bilform': 0}
    mons = []

    def mesh_after(mon, token, args, kwargs, result):
        if mon.depth != 0:
            return
        mesh = args[0]
        state['ops'] += 1
        n = len(mesh.leaf_elements)
        if n > 400 and state['ops'] % 97:
            return
        if n > 60 and state['ops'] % 7:
            return
        state['checked'] += 1
        ts, xs = grids_of(mesh)
        wit = {'source': 'repository test suite', 'n_leaves': n, 'op': state['ops']}
        if focus == 'C02':
            bad = rm.check_structure(mesh, ts, xs)
            ref = rm.RefMesh.from_leaves(rm.leaf_dict(mesh).items(), mesh.glue_space, (ts[0], ts[-1], xs[0], xs[-1]))
            # mid-sequence states of compound operations (refine = time then space on the children) are 1-irregular too
            irr = ref.irregularity()
            if max(irr) > 1:
                bad.append('level jump %r between edge neighbours' % (irr, ))
            for b in bad[:2]:
                from .meshexplore import mech
                acc.violation('mesh-invariant(suite):' + mech(b), b, wit)
        else:
            ref = rm.RefMesh.from_leaves(rm.leaf_dict(mesh).items(), mesh.glue_space, (ts[0], ts[-1], xs[0], xs[-1]))
            leaves = list(mesh.leaf_elements)
            bad, n_edges, stats = rm.check_neighbours(mesh, ref, leaves if n <= 200 else leaves[-40:])
            acc.count('edges_checked', n_edges)
            for b in bad[:2]:
                from .meshexplore import mech
                acc.violation('neighbours(suite):' + mech(b), b, wit)
        acc.case(None, 'suite:mesh-op')

    def bilform_after(mon, token, args, kwargs, result):
        import numpy as np
        sl, trial, test = args[0], args[1], args[2]
        state['bilform'] += 1
        wit = {'source': 'repository test suite', 'test': (test.time_interval, test.space_interval),
               'trial': (trial.time_interval, trial.space_interval), 'pw_exact': bool(sl.pw_exact)}
        if test.time_interval[1] <= trial.time_interval[0]:
            if not (result == 0.0):
                acc.violation('acausal-entry-nonzero(suite)', 'entry %r for an acausal pair' % (result, ), wit)
        else:
            if np.ndim(result) != 0 or not np.isfinite(result):
                acc.violation('entry-not-a-finite-number(suite)', 'bilform returned %r' % (result, ), wit)
            elif result < 0 and not sl.pw_exact:
                acc.violation('causal-entry-negative(suite)', 'quadrature path returned %r' % (result, ), wit)
        acc.case(None, 'suite:bilform')

    if focus in ('C02', 'C10'):
        mons.append(wrap_method(Mesh, 'refine_axis', after=mesh_after))
    else:
        mons.append(wrap_method(SingleLayerOperator, 'bilform', after=bilform_after))
    cwd = os.getcwd()
    try:
        os.chdir(env.REPO)
        args = ['-q', '-x', '-p', 'no:cacheprovider', '--timeout=600', '-o', 'python_files=*_test.py'] + [os.path.join(env.REPO, f) for f in files]
        if k_filter:
            args += ['-k', k_filter]
        rc = pytest.main(args)
    finally:
        os.chdir(cwd)
        for m in mons:
            m.uninstall()
    acc.count('suite_mesh_ops_seen', state['ops'])
    acc.count('suite_mesh_states_checked', state['checked'])
    acc.count('suite_bilform_calls_seen', state['bilform'])
    acc.extra['pytest_rc'] = int(rc)
    acc.seen('source:repo-test-suite')
    acc.distinct.add('suite-%s-%d' % (focus, state['ops'] + state['bilform']))
    if int(rc) not in (0, 1):
        acc.inconclusive_because('pytest under monitors ended with exit status %r' % int(rc))
