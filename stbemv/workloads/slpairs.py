"""Supply of single-layer element pairs on real meshes, with a geometry-only classification of each pair."""
import random

import numpy as np

from ..monitor import wrap_method
from .meshes import aspect_bounded_mesh

SPACE_CLASSES = ['identical', 'nested-shared-end', 'nested-interior', 'touch-same-piece', 'touch-corner', 'touch-seam',
                 'disjoint-same-piece', 'disjoint-other-piece', 'disjoint-nearer-through-seam', 'partial-overlap']
TIME_CLASSES = ['equal', 'overlap', 'touch', 'separated']


def time_relation(test_t, trial_t):
    a, b = test_t
    c, d = trial_t
    if b <= c:
        return 'acausal'
    if (a, b) == (c, d):
        return 'equal'
    if a == d:
        return 'touch'
    if a > d:
        return 'separated'
    return 'overlap'


def space_relation(geo, test_x, trial_x):
    """Classification from geometry only (geo: oracles.refint.Geo)."""
    x0, x1 = test_x
    y0, y1 = trial_x
    L = geo.length
    pi, pj = geo.piece_of(x0, x1), geo.piece_of(y0, y1)
    if (x0, x1) == (y0, y1):
        return 'identical'
    same = pi == pj
    lo, hi = max(x0, y0), min(x1, y1)
    if lo < hi:  # overlap of positive length
        if (x0 >= y0 and x1 <= y1) or (y0 >= x0 and y1 <= x1):
            return 'nested-shared-end' if (x0 == y0 or x1 == y1) else 'nested-interior'
        return 'partial-overlap'
    seam = geo.closed and ((x0 == 0 and y1 == L) or (y0 == 0 and x1 == L))
    if x1 == y0 or y1 == x0:
        return 'touch-same-piece' if same else 'touch-corner'
    if seam:
        return 'touch-seam'
    gap = (y0 - x1) if x1 < y0 else (x0 - y1)
    if geo.closed and (L - max(x1, y1) + min(x0, y0)) < gap:
        return 'disjoint-nearer-through-seam'
    return 'disjoint-same-piece' if same else 'disjoint-other-piece'


def corner_nearness(geo, x, y):
    """For two parameter intervals on DIFFERENT pieces of a polygon (a corner, or the closing seam, between them):
    ('touch', H/h) if they meet in the corner, ('disjoint', H/gap) otherwise, with H, h the longer / shorter length and the gap
    measured along the curve (through the seam when that is shorter). None for the same piece, the circle, or overlapping intervals."""
    if geo.circle or geo.piece_of(*x) == geo.piece_of(*y):
        return None
    (x0, x1), (y0, y1) = x, y
    if min(x1, y1) > max(x0, y0):
        return None
    H, h = max(x1 - x0, y1 - y0), min(x1 - x0, y1 - y0)
    gap = max(y0 - x1, x0 - y1)
    if geo.closed:
        gap = min(gap, geo.length - max(x1, y1) + min(x0, y0))
    if gap <= 0:
        return ('touch', H / h)
    return ('disjoint', H / gap)


def k4_envelope(near):
    """Recorded accuracy limit K4 (known-findings.txt, DESIGN.md section 6): the graded (12,12) log rule used for two panels around a corner.
    Measured on the unchanged tree over 42 000 synthetic pairs (three polygons, length ratios 2..512, gaps 1/32..4 of the shorter length,
    aspects 1..32, four time relations): error <= 7e-8 * H/gap for disjoint pairs (above the demanded 1e-7 from H/gap ~ 14 on) and
    <= 1.4e-9 * H/h for pairs touching in the corner (above 1e-7 from H/h ~ 128 on). Returns the bound up to which a deviation is
    attributed to that mechanism (three times the measured envelope), or None outside its region."""
    if near is None:
        return None
    kind, rho = near
    if kind == 'disjoint':
        return min(2e-7 * rho, 6e-5) if rho >= 8 else None
    return min(5e-9 * rho, 6e-5) if rho >= 64 else None


def size_ratio(test, trial):
    r = max(test.h_x / trial.h_x, trial.h_x / test.h_x, test.h_t / trial.h_t, trial.h_t / test.h_t)
    return r


def aspect(e):
    return e.h_x**2 / e.h_t


class BilformLog:
    """Monitor on SingleLayerOperator.bilform: every call and its return value."""
    def __init__(self):
        from src.single_layer import SingleLayerOperator
        self.events = []
        self.mon = wrap_method(SingleLayerOperator, 'bilform', after=self._after)

    def _after(self, mon, token, args, kwargs, result):
        sl, trial, test = args[0], args[1], args[2]
        self.events.append((bool(sl.pw_exact), test, trial, result))

    def take(self):
        ev, self.events = self.events, []
        return ev

    def close(self):
        self.mon.uninstall()


def make_mesh(curve_name, rseed, n_ops, custom_grid=False, time_grid=None, max_aspect=32.0):
    """Random aspect-bounded mesh on a shipped curve; optionally with a custom tensor initial mesh."""
    from ..oracles.refint import Geo
    rng = random.Random(rseed)
    geo = Geo(curve_name)
    space_grid = None
    if custom_grid == 'graded':
        # initial grid graded geometrically towards a break point / an end of the curve: neighbouring roots differ by a factor two,
        # next-but-one neighbours by 4, 8, 16, ... (near pairs of large length ratio without any time refinement)
        pts = set(geo.starts)
        j = rng.randrange(len(geo.starts))
        left = (j > 0) and (rng.random() < 0.5 or j == len(geo.starts) - 1)
        ln = (geo.starts[j] - geo.starts[j - 1]) if left else (geo.starts[j + 1] - geo.starts[j])
        kmax = rng.randint(4, 6)
        for k in range(1, kmax):
            # some graded points are left out, so that touching roots also differ by factors 4, 8, 16
            if k in (1, kmax - 1) or rng.random() < 0.55:
                pts.add(geo.starts[j] - ln * 2.0**-k if left else geo.starts[j] + ln * 2.0**-k)
        space_grid = sorted(pts)
    elif custom_grid:
        pts = set(geo.starts)
        for _ in range(rng.randint(1, 3)):
            i = rng.randrange(len(geo.starts) - 1)
            pts.add(geo.starts[i] + rng.choice([0.5, 0.25, 0.3, 0.7, rng.random()]) * (geo.starts[i + 1] - geo.starts[i]))
        space_grid = sorted(pts)
    presplit = curve_name == 'LShape' and rng.random() < 0.5 and not custom_grid
    bias = rng.choice([0.35, 0.5, 0.65])
    ls = aspect_bounded_mesh(curve_name, rng, n_ops, max_aspect=max_aspect, time_grid=time_grid,
                             presplit=presplit, bias=bias, space_grid=space_grid)
    return ls, geo
