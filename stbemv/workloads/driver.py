"""W-driver: the repository's real driver example.py, run through runpy in a scratch directory under monitors.

example.py is not importable (everything lives under `if __name__ == '__main__'`), so this is the only way to observe the
assembly / solve / residual sequence of the real adaptive loop. A monitor on ErrorEstimator.residual captures what each loop
hands to the estimators and raises a private Stop at the start of loop `loops` (0-based), after the estimators and the
refinement of the previous loops have really run (process pools included).
"""
import os
import runpy
import shutil
import sys
import tempfile

from .. import env
from ..monitor import wrap_method


class Stop(BaseException):
    pass


def run_driver(argv, loops=2, workdir=None):
    """Returns (captures, error). captures: list of dicts per completed residual() call."""
    import multiprocessing as mp
    import numpy as np
    from src.error_estimator import ErrorEstimator
    captures = []
    solves = []
    real_solve = np.linalg.solve

    def solve(a, b, *args, **kw):
        x = real_solve(a, b, *args, **kw)
        solves.append((np.array(a, copy=True), np.array(b, copy=True), np.array(x, copy=True)))
        return x

    def before(mon, args, kwargs):
        if len(captures) >= loops:
            raise Stop()
        return None

    def after(mon, token, args, kwargs, result):
        names = ['self', 'elems', 'Phi', 'SL', 'M0u0', 'g', 'SL_exact_eval']
        d = dict(zip(names, args))
        d.update(kwargs)
        d.setdefault('M0u0', None)
        d.setdefault('g', None)
        d.setdefault('SL_exact_eval', False)
        d['residual'] = result
        d['solve'] = solves[-1] if solves else None
        d['mesh'] = d['self'].bdr_mesh
        captures.append(d)

    mon = wrap_method(ErrorEstimator, 'residual', before=before, after=after)
    cwd = os.getcwd()
    # workdir: a directory kept by the caller, so that a second run finds the cache files (./data) of the first
    work = workdir or tempfile.mkdtemp(prefix='driver-', dir=env.scratch_root())
    old_argv = sys.argv
    real_start = mp.set_start_method
    err = None
    try:
        os.chdir(work)
        sys.argv = ['example.py'] + list(argv)
        np.linalg.solve = solve
        # the driver calls mp.set_start_method('fork'); a second driver run in one process must not fail on that
        mp.set_start_method = lambda method, force=False: real_start(method, force=True)
        try:
            runpy.run_path(os.path.join(env.REPO, 'example.py'), run_name='__main__')
        except Stop:
            pass
        except SystemExit:
            pass
        except BaseException as ex:  # noqa: the caller decides whose exception it is
            err = ex
    finally:
        np.linalg.solve = real_solve
        mp.set_start_method = real_start
        sys.argv = old_argv
        os.chdir(cwd)
        mon.uninstall()
        if workdir is None:
            shutil.rmtree(work, ignore_errors=True)
    return captures, err
