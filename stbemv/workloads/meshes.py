"""Mesh supply: real Mesh / MeshParametrized objects driven in lock-step with the reference model."""
import math
import random

from ..oracles import refmesh as rm
from ..monitor import wrap_method

CURVES = ('UnitSquare', 'PiSquare', 'LShape', 'Circle', 'UnitInterval')


def curve(name):
    from src import parametrization as P
    return getattr(P, name)()


class RefineLog:
    """Monitor on Mesh.refine_axis: records (rect, ax, depth) of every call; depth 0 = requested."""
    def __init__(self):
        from src.mesh import Mesh
        self.events = []
        self.mon = wrap_method(Mesh, 'refine_axis', before=self._before)

    def _before(self, mon, args, kwargs):
        elem, ax = args[1], args[2]
        self.events.append((rm.rect_of(elem), ax, mon.depth))

    def take(self):
        ev, self.events = self.events, []
        return ev

    def close(self):
        self.mon.uninstall()


class LockStep:
    """A live mesh plus the reference model, advanced together."""
    def __init__(self, spec):
        from src.mesh import Mesh, MeshParametrized
        self.spec = dict(spec)
        tg = list(spec.get('time_grid', [0, 1]))
        if spec.get('curve'):
            gamma = curve(spec['curve'])
            sg = spec.get('space_grid')
            self.mesh = MeshParametrized(gamma, initial_space_mesh=list(sg) if sg else None,
                                         initial_time_mesh=tg)
            sg = list(sg) if sg else list(gamma.pw_start)
            self.glued = gamma.closed
            self.gamma = gamma
        else:
            sg = list(spec.get('space_grid', [0, 1]))
            self.glued = bool(spec.get('glued', False))
            self.mesh = Mesh(glue_space=self.glued, initial_space_mesh=sg, initial_time_mesh=tg)
            self.gamma = None
        self.time_grid, self.space_grid = tg, sg
        self.domain = (tg[0], tg[-1], sg[0], sg[-1])
        # the initial state is taken from the implementation (MeshParametrized may pre-refine
        # short closed curves; that rule is C18's subject) and validated structurally by the caller
        self.ref = rm.RefMesh.from_leaves(rm.leaf_dict(self.mesh).items(), self.glued, self.domain)
        if spec.get('presplit_long'):  # what example.py does on the L-shape
            for e in list(self.mesh.leaf_elements):
                if e.h_x > 1:
                    self.bisect(e, 1)
        self.history = []

    # -- operations, each applied to both sides ----------------------------
    def leaves(self):
        return list(self.mesh.leaf_elements)

    def bisect(self, elem, ax):
        r = rm.rect_of(elem)
        self.mesh.refine_axis(elem, ax)
        self.ref.bisect(r, ax)

    def refine(self, elem):
        r = rm.rect_of(elem)
        self.mesh.refine(elem)
        self.ref.refine_both(r)

    def uniform(self):
        self.mesh.uniform_refine()
        self.ref.quarter_all()

    def uniform_space(self):
        self.mesh.uniform_refine_space()
        self.ref.halve_all_space()

    def apply(self, op):
        """op = ('b', leaf_index, ax) | ('r', leaf_index) | ('u',) | ('us',)"""
        kind = op[0]
        if kind == 'b':
            self.bisect(self.leaves()[op[1]], op[2])
        elif kind == 'r':
            self.refine(self.leaves()[op[1]])
        elif kind == 'u':
            self.uniform()
        elif kind == 'us':
            self.uniform_space()
        else:
            raise ValueError(op)
        self.history.append(list(op))

    # -- checks ---------------------------------------------------------------
    def check_all(self, neighbours=True, gmsh=False, nbr_elems=None):
        bad = rm.compare_leaves(self.mesh, self.ref)
        bad += rm.check_structure(self.mesh, self.time_grid, self.space_grid)
        n_edges, stats = 0, {}
        if neighbours and not bad:
            b2, n_edges, stats = rm.check_neighbours(self.mesh, self.ref, nbr_elems)
            bad += b2
        if gmsh:
            bad += rm.check_gmsh(self.mesh)
        return bad, n_edges, stats

    def max_aspect(self):
        return max(e.h_x**2 / e.h_t for e in self.mesh.leaf_elements)


def random_grid(rng, n, lo=0.0, kind=None):
    """Strictly increasing grid with n intervals starting at lo: dyadic, decimal or irrational."""
    kind = kind or rng.choice(['dyadic', 'decimal', 'irrational', 'unit'])
    pts = [lo]
    for _ in range(n):
        if kind == 'unit':
            step = 1
        elif kind == 'dyadic':
            step = rng.choice([0.25, 0.5, 1, 2, 0.75])
        elif kind == 'decimal':
            step = rng.choice([0.1, 0.3, 0.7, 1.1, 0.01])
        else:
            step = rng.choice([math.pi / 3, math.sqrt(2) / 2, math.e / 5, 1 / 3, 1 / 7])
        pts.append(pts[-1] + step)
    return pts


def aspect_bounded_mesh(curve_name, rng, n_ops, max_aspect=32.0, time_grid=None, presplit=False,
                        bias=0.5, space_grid=None):
    """Random bisection history on a shipped curve, kept at h_x^2/h_t <= max_aspect on every leaf
    (time bisections that would push a leaf over the bound are replaced by space bisections)."""
    spec = {'curve': curve_name, 'time_grid': time_grid or [0, 1]}
    if space_grid:
        spec['space_grid'] = space_grid
    if presplit:
        spec['presplit_long'] = True
    ls = LockStep(spec)
    fix_aspect(ls, max_aspect)
    for _ in range(n_ops):
        L = ls.leaves()
        e = L[rng.randrange(len(L))]
        ax = 0 if rng.random() < bias else 1
        if ax == 0 and e.h_x**2 / (e.h_t / 2) > max_aspect:
            ax = 1
        ls.bisect(e, ax)
        fix_aspect(ls, max_aspect)
    return ls


def fix_aspect(ls, max_aspect):
    """Closure may time-bisect wide neighbours: bisect offenders in space until all are in scope."""
    for _ in range(64):
        off = [e for e in ls.mesh.leaf_elements if e.h_x**2 / e.h_t > max_aspect]
        if not off:
            return
        off.sort(key=lambda e: e.level_space)
        for e in off:
            if not e.children:
                ls.bisect(e, 1)
    raise RuntimeError('could not bound the aspect')
