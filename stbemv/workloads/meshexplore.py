"""W-hist: bounded-exhaustive and random operation histories on the real Mesh, observed in lock-step.

Used by C02 (tiling / minimal closure / bookkeeping) and C10 (neighbours). `focus` selects which
oracle's verdicts are recorded; both always run on the same executions.
"""
import random

import numpy as np

from ..oracles import refmesh as rm
from ..monitor import repo_frame


def mech(text):
    """Mechanism key from a problem description: the words before the first coordinate / number."""
    import re
    t = re.split(r'[\(\[\d]', text, maxsplit=1)[0].strip().rstrip(':').strip()
    return t[:60].replace(' ', '-') or 'unspecified'
from .meshes import LockStep, RefineLog, random_grid

# family of small initial meshes for the exhaustive part
FAMILY = {
    'open1x1': {'space_grid': [0, 1], 'time_grid': [0, 1], 'glued': False},
    'glued1x1': {'space_grid': [0, 1], 'time_grid': [0, 1], 'glued': True},
    'open2x1': {'space_grid': [0, 1, 2], 'time_grid': [0, 1], 'glued': False},
    'glued2x1': {'space_grid': [0, 1, 2], 'time_grid': [0, 1], 'glued': True},
    'open1x2': {'space_grid': [0, 1], 'time_grid': [0, 1, 2], 'glued': False},
    'glued1x2': {'space_grid': [0, 1], 'time_grid': [0, 1, 2], 'glued': True},
    'open2x2': {'space_grid': [0, 1, 2], 'time_grid': [0, 0.5, 1], 'glued': False},
    'glued2x2': {'space_grid': [0, 1, 2], 'time_grid': [0, 0.5, 1], 'glued': True},
    'glued3x1': {'space_grid': [0, 1, 2, 3], 'time_grid': [0, 1], 'glued': True},
    'open1x3': {'space_grid': [0, 1], 'time_grid': [0, 1, 2, 3], 'glued': False},
    'glued2x1nonuni': {'space_grid': [0, 0.3, 1.7], 'time_grid': [0, 0.7], 'glued': True},
    'open2x2nonuni': {'space_grid': [0, 0.1, 1.0], 'time_grid': [0, 1 / 3, 1], 'glued': False},
    'open2x2offset': {'space_grid': [2, 3, 4.5], 'time_grid': [1, 2, 4], 'glued': False},
    'open2x2through0': {'space_grid': [-1, 0, 2], 'time_grid': [-1, 0, 1], 'glued': False},
    'UnitSquare': {'curve': 'UnitSquare'},
    'Circle': {'curve': 'Circle'},
    'LShape': {'curve': 'LShape'},
    'UnitInterval': {'curve': 'UnitInterval'},
}


def n_root_leaves(name):
    s = FAMILY[name]
    if s.get('curve'):
        return {'UnitSquare': 4, 'PiSquare': 4, 'Circle': 4, 'LShape': 6, 'UnitInterval': 1}[s['curve']]
    return (len(s['space_grid']) - 1) * (len(s['time_grid']) - 1)


def _judge(acc, focus, ls, label, cls, gmsh=False):
    """Run both oracles on the current state; record verdicts for the focused property."""
    if focus == 'C02':
        bad = rm.compare_leaves(ls.mesh, ls.ref)
        bad += rm.check_structure(ls.mesh, ls.time_grid, ls.space_grid)
        if gmsh:
            bad += rm.check_gmsh(ls.mesh)
        for b in bad[:3]:
            acc.violation('mesh-invariant:' + mech(b), b,
                          {'mesh': ls.spec, 'history': ls.history, 'state': label})
        return not bad
    # C10: neighbours against the geometric rule on the *actual* leaves
    ref = rm.RefMesh.from_leaves(rm.leaf_dict(ls.mesh).items(), ls.glued, ls.domain)
    bad, n_edges, stats = rm.check_neighbours(ls.mesh, ref)
    acc.count('edges_checked', n_edges)
    for k, v in stats.items():
        acc.seen('edge:' + k, v)
    for b in bad[:3]:
        acc.violation('neighbours:' + mech(b), b,
                      {'mesh': ls.spec, 'history': ls.history, 'state': label})
    return not bad


def run_bfs(spec, acc, focus):
    name = spec['mesh']
    depth = spec['depth']
    prefix = [tuple(o) for o in spec.get('prefix', [])]
    mod = spec.get('mod')  # (k, K): filter on the op index at the first free level
    seen = {}
    log = RefineLog()
    try:
        def build(hist):
            ls = LockStep(FAMILY[name])
            for op in hist:
                ls.apply(op)
            log.take()
            return ls

        if spec.get('check_root'):
            root = build(())
            _judge(acc, focus, root, 'root', 'bfs', gmsh=True)
            acc.case('root' + name, 'bfs:' + name)
        start = build(prefix)
        sig0 = rm.tree_signature(start.mesh)
        seen[sig0] = tuple(prefix)
        if not prefix or True:
            _judge(acc, focus, start, 'start', 'bfs')
            acc.case('S' + sig0 if len(sig0) < 15 else sig0 + name, 'bfs:' + name)
        frontier = [tuple(prefix)]
        transitions = 0
        for level in range(len(prefix), depth):
            nxt = []
            for hist in frontier:
                base = build(hist)
                n = len(base.leaves())
                ops = [('b', i, ax) for i in range(n) for ax in (0, 1)]
                if mod and level == len(prefix):
                    ops = [o for j, o in enumerate(ops) if j % mod[1] == mod[0]]
                for op in ops:
                    ls = build(hist)
                    try:
                        ls.apply(op)
                    except (Exception, RecursionError) as ex:
                        fr = repo_frame(ex)
                        if fr is None:
                            raise
                        acc.count('op_raised')
                        if focus == 'C02':
                            acc.violation('mesh-op-raised:%s:%s' % (fr[0], type(ex).__name__),
                                          'legal bisection raised %s(%s) at %s:%d' % (type(ex).__name__, str(ex)[:80], fr[1], fr[2]),
                                          {'mesh': FAMILY[name], 'history': list(hist) + [op]})
                        elif fr[0] == 'neighbour_elements':
                            acc.violation('neighbours:lookup-raised-during-refine:%s' % type(ex).__name__,
                                          'neighbour_elements() raised %s at %s:%d inside a legal bisection' % (type(ex).__name__, fr[1], fr[2]),
                                          {'mesh': FAMILY[name], 'history': list(hist) + [op]})
                        continue
                    ev = log.take()
                    transitions += 1
                    acc.count('closure_bisections', sum(1 for e in ev if e[2] > 0))
                    if any(e[2] > 0 for e in ev):
                        acc.seen('op:with-closure')
                    else:
                        acc.seen('op:no-closure')
                    sig = rm.tree_signature(ls.mesh)
                    new = sig not in seen
                    _judge(acc, focus, ls, 'after', 'bfs', gmsh=new)
                    acc.case(sig + name, 'bfs:' + name)
                    if new:
                        seen[sig] = tuple(ls.history)
                        nxt.append(tuple(ls.history))
                        lv = max(max(e.levels) for e in ls.mesh.leaf_elements)
                        acc.worst_of('max_level', lv)
                        if len(acc.samples) < 2 and level == depth - 1:
                            acc.sample({'mesh': name, 'history': ls.history, 'leaves': sorted(rm.leaf_dict(ls.mesh))[:6],
                                        'n_leaves': len(ls.mesh.leaf_elements)}, 'bfs' + name)
            frontier = nxt
        acc.count('bfs_states', len(seen))
        acc.count('bfs_transitions', transitions)
    finally:
        log.close()


def random_mesh_spec(rng):
    r = rng.random()
    if r < 0.45:
        return {'curve': rng.choice(['UnitSquare', 'PiSquare', 'LShape', 'Circle', 'UnitInterval']),
                'time_grid': random_grid(rng, rng.randint(1, 3), kind=rng.choice(['unit', 'dyadic', 'decimal']))}
    nx, nt = rng.randint(1, 4), rng.randint(1, 3)
    return {'space_grid': random_grid(rng, nx), 'time_grid': random_grid(rng, nt), 'glued': rng.random() < 0.5}


def run_random(spec, acc, focus):
    rng = random.Random(spec['rseed'])
    log = RefineLog()
    try:
        for h in range(spec['n_hist']):
            ms = random_mesh_spec(rng)
            force_grading = focus == 'C02' and h == 0 and spec['n_steps'] > 12
            if force_grading:
                # the class op:grading is required by C02; at 2% per step some seeds never drew it (seed 6, quick tier: INCONCLUSIVE).
                # The first history of every shard is therefore on a shipped curve with one time slab and grades at step 12.
                ms = {'curve': random.Random(spec['rseed'] ^ 0x5eed).choice(['UnitSquare', 'PiSquare', 'LShape', 'Circle', 'UnitInterval']),
                      'time_grid': [0.0, 1.0]}
            ls = LockStep(ms)
            log.take()
            bias = rng.choice([0.2, 0.5, 0.8])
            _judge(acc, focus, ls, 'start', 'random')
            for step in range(spec['n_steps']):
                L = ls.leaves()
                u = rng.random()
                if force_grading and step == 12 and len(L) < 400:
                    u = 0.99
                try:
                    if u < 0.86 or len(L) > 1500:
                        i = rng.randrange(len(L))
                        ax = 0 if rng.random() < bias else 1
                        if L[i].h_t < 1e-7 or L[i].h_x < 1e-7:
                            continue
                        ls.apply(('b', i, ax))
                        kind = 'bisect'
                    elif u < 0.92:
                        ls.apply(('r', rng.randrange(len(L))))
                        kind = 'refine-both'
                    elif u < 0.94 and len(L) < 150:
                        ls.apply(('u', ))
                        kind = 'uniform'
                    elif u < 0.96 and len(L) < 400:
                        ls.apply(('us', ))
                        kind = 'uniform-space'
                    elif u < 0.98:
                        kind = 'dorfler'
                        n = len(L)
                        theta = rng.choice([0.3, 0.5, 0.9, rng.random() * 0.98 + 0.01])
                        style = rng.choice(['rand', 'tied', 'zero', 'dominant'])
                        variant = 'iso' if rng.random() < 0.5 else 'aniso'
                        eta = _eta(rng, n, style) if variant == 'iso' else np.array([_eta(rng, n, style), _eta(rng, n, style)]).T.copy()
                        ls.history.append(['d_' + variant, style, theta])
                        if focus == 'C02':
                            # marking-driven refinement must be the minimal closure too: judged with C06's oracle
                            # (marked set from the depth-0 requests, post-mesh == reference model)
                            from ..props.c06 import observe_call
                            ev_pending = log.take()
                            ok = observe_call(acc, ls, log, variant, eta, theta, style,
                                              {'mesh': ms, 'history': list(ls.history), 'eta_kind': style, 'theta': theta})
                            log.events.extend(ev_pending)
                            if not ok:
                                break
                        else:
                            if variant == 'iso':
                                ls.mesh.dorfler_refine_isotropic(eta, theta)
                            else:
                                ls.mesh.dorfler_refine_anisotropic(eta, theta)
                            ls.ref = rm.RefMesh.from_leaves(rm.leaf_dict(ls.mesh).items(), ls.glued, ls.domain)
                    elif len(L) < 400 and ls.gamma is not None:
                        # grading-driven refinement (shipped curves only: C19's termination bound needs roots of comparable size)
                        from ..props.c19 import graded_call, size_bound
                        sigma = rng.choice([1, 1.5, 2])
                        equal_slabs = len({round(b - a, 12) for a, b in zip(ls.time_grid, ls.time_grid[1:])}) == 1
                        if not equal_slabs or size_bound(ls.mesh, ls, sigma, 4) > 6000:
                            continue
                        kind = 'grading'
                        ls.history.append(['grading', sigma])
                        ev_pending = log.take()
                        res = graded_call(acc, ls, log, sigma, 4, {'mesh': ms, 'history': list(ls.history)}, 6000)
                        log.events.extend(ev_pending)
                        ls.ref = rm.RefMesh.from_leaves(rm.leaf_dict(ls.mesh).items(), ls.glued, ls.domain)
                        if res == 'viol':
                            break
                    else:
                        continue
                except (Exception, RecursionError) as ex:
                    fr = repo_frame(ex)
                    if fr is None:
                        raise
                    acc.count('op_raised')
                    if focus == 'C02':
                        acc.violation('mesh-op-raised:%s:%s' % (fr[0], type(ex).__name__),
                                      'legal operation raised %s(%s) at %s:%d' % (type(ex).__name__, str(ex)[:80], fr[1], fr[2]),
                                      {'mesh': ms, 'history': ls.history, 'step': step})
                    elif fr[0] == 'neighbour_elements':
                        acc.violation('neighbours:lookup-raised-during-refine:%s' % type(ex).__name__,
                                      'neighbour_elements() raised %s at %s:%d inside a legal operation' % (type(ex).__name__, fr[1], fr[2]),
                                      {'mesh': ms, 'history': ls.history, 'step': step})
                    break
                ev = log.take()
                acc.seen('op:' + kind)
                acc.count('closure_bisections', sum(1 for e in ev if e[2] > 0))
                full = (step % 10 == 9) or step == spec['n_steps'] - 1 or len(L) < 60
                if focus == 'C02':
                    if full:
                        _judge(acc, focus, ls, 'step%d' % step, 'random', gmsh=(step % 50 == 49))
                    else:
                        bad = rm.compare_leaves(ls.mesh, ls.ref)
                        for b in bad[:1]:
                            acc.violation('mesh-invariant:leaves-differ', b, {'mesh': ms, 'history': ls.history})
                else:
                    if full:
                        _judge(acc, focus, ls, 'step%d' % step, 'random')
                    else:  # leaves touched by this step plus a seeded sample
                        ref = rm.RefMesh.from_leaves(rm.leaf_dict(ls.mesh).items(), ls.glued, ls.domain)
                        leaves = ls.leaves()
                        pick = leaves[-2 * (len(ev) + 1):] + [leaves[rng.randrange(len(leaves))] for _ in range(32)]
                        bad, n_edges, stats = rm.check_neighbours(ls.mesh, ref, list(dict.fromkeys(pick)))
                        acc.count('edges_checked', n_edges)
                        for k, v in stats.items():
                            acc.seen('edge:' + k, v)
                        for b in bad[:2]:
                            acc.violation('neighbours:' + mech(b), b,
                                          {'mesh': ms, 'history': ls.history})
                acc.case(None, 'random:' + ('glued' if ls.glued else 'open'))
            acc.distinct.add('R%d-%d' % (spec['rseed'], h))
            acc.worst_of('max_leaves', len(ls.mesh.leaf_elements))
            acc.worst_of('max_level', max(max(e.levels) for e in ls.mesh.leaf_elements))
            if h == 0:
                acc.sample({'mesh': ms, 'first_ops': ls.history[:8], 'n_ops': len(ls.history),
                            'n_leaves': len(ls.mesh.leaf_elements)}, 'random')
            # distinct states visited: signature digest of the final tree
            acc.distinct.add(rm.tree_signature(ls.mesh)[:4000] if False else
                             __import__('hashlib').md5(rm.tree_signature(ls.mesh).encode()).hexdigest()[:12])
    finally:
        log.close()


def _eta(rng, n, style):
    if style == 'rand':
        return np.array([rng.random()**3 for _ in range(n)])
    if style == 'tied':
        return np.array([float(rng.choice([1, 2, 2, 4])) for _ in range(n)])
    if style == 'zero':
        return np.zeros(n)
    a = np.full(n, 1e-6)
    a[rng.randrange(n)] = 1.0
    return a


def plan(tier, seed):
    specs = []
    d_small = 4 if tier == 'quick' else 6
    for name in FAMILY:
        n0 = n_root_leaves(name)
        if tier == 'quick':
            depth = 4 if n0 <= 2 else 3
            K = 1 if n0 <= 2 else 2
        else:
            depth = 7 if n0 == 1 else (6 if n0 == 2 else (5 if n0 <= 4 else 4))
            K = 4
        for i in range(n0):
            for ax in (0, 1):
                for k in range(K):
                    specs.append({'name': 'bfs-%s-%d%d-%d' % (name, i, ax, k), 'mode': 'bfs', 'mesh': name,
                                  'depth': depth, 'prefix': [['b', i, ax]], 'mod': [k, K],
                                  'check_root': (i, ax, k) == (0, 0, 0)})
    for k in range(len(DEEP)):
        specs.append({'name': 'deep-%d' % k, 'mode': 'deep', 'deep': k})
    for k in range(len(VERYDEEP)):
        specs.append({'name': 'verydeep-%d' % k, 'mode': 'verydeep', 'verydeep': k})
    specs.append({'name': 'suite-mesh-tests', 'mode': 'suite', 'files': ['src/mesh_test.py', 'src/error_estimator_test.py']})
    n_r = 16 if tier == 'quick' else 64
    for k in range(n_r):
        specs.append({'name': 'random-%d' % k, 'mode': 'random', 'rseed': seed * 1000 + k,
                      'n_hist': 3 if tier == 'quick' else 8, 'n_steps': 120 if tier == 'quick' else 200})
    return specs


DEEP = [
    # (mesh spec, follow: which leaf to bisect next, axis, depth)
    ({'space_grid': [0, 1, 2, 3], 'time_grid': [0, 1], 'glued': True}, 'seam-last-top', 0, 24),
    ({'space_grid': [0, 1, 2, 3], 'time_grid': [0, 1], 'glued': True}, 'seam-first-top', 0, 24),
    ({'space_grid': [0, 1, 2], 'time_grid': [0, 1000, 1001], 'glued': True}, 'seam-last-top', 0, 14),
    ({'space_grid': [0, 1, 2], 'time_grid': [0, 1000, 1001], 'glued': True}, 'seam-first-bottom', 0, 14),
    ({'space_grid': [0, 1, 2], 'time_grid': [0, 1], 'glued': True}, 'seam-last-top', 1, 26),
    ({'space_grid': [0, 1, 2], 'time_grid': [0, 1], 'glued': True}, 'seam-first-top', 1, 26),
    ({'space_grid': [0, 1, 2], 'time_grid': [0, 1], 'glued': False}, 'interior-top', 1, 26),
    ({'space_grid': [100, 101, 102.5], 'time_grid': [50, 50.25], 'glued': True}, 'seam-last-top', 0, 16),
    ({'curve': 'Circle'}, 'seam-last-top', 0, 22),
    ({'curve': 'UnitSquare', 'time_grid': [0, 0.5, 1]}, 'seam-first-bottom', 0, 22),
    ({'curve': 'LShape'}, 'seam-last-top', 1, 22),
]


def run_deep(spec, acc, focus):
    """Deep one-sided refinement at the seam / at an interior line / far from the origin: levels beyond what random histories reach."""
    ms, follow, ax, depth = DEEP[spec['deep']]
    log = RefineLog()
    try:
        ls = LockStep(ms)
        x_min, x_max = ls.domain[2], ls.domain[3]
        for step in range(depth):
            leaves = ls.leaves()
            if follow.startswith('seam-last'):
                cand = [e for e in leaves if e.space_interval[1] == x_max]
            elif follow.startswith('seam-first'):
                cand = [e for e in leaves if e.space_interval[0] == x_min]
            else:
                mid = ls.space_grid[1]
                cand = [e for e in leaves if e.space_interval[1] == mid]
            key = (lambda e: e.time_interval[1]) if follow.endswith('top') else (lambda e: -e.time_interval[0])
            best = max(cand, key=key)
            # among those at the extreme time, the smallest one
            ext = [e for e in cand if key(e) == key(best)]
            e = min(ext, key=lambda q: (q.h_t, q.h_x))
            if e.h_t < 1e-9 or e.h_x < 1e-9:
                break
            try:
                ls.apply(('b', leaves.index(e), ax))
            except (Exception, RecursionError) as ex:
                fr = repo_frame(ex)
                if fr is None:
                    raise
                if focus == 'C02':
                    acc.violation('mesh-op-raised:%s:%s' % (fr[0], type(ex).__name__), 'deep bisection raised %s at %s:%d' % (type(ex).__name__, fr[1], fr[2]),
                                  {'mesh': ms, 'history': ls.history})
                elif fr[0] == 'neighbour_elements':
                    acc.violation('neighbours:lookup-raised-during-refine:%s' % type(ex).__name__,
                                  'neighbour_elements() raised %s at %s:%d inside a deep bisection' % (type(ex).__name__, fr[1], fr[2]), {'mesh': ms, 'history': ls.history})
                break
            log.take()
            ok = _judge(acc, focus, ls, 'deep%d' % step, 'deep', gmsh=(step == depth - 1))
            acc.case('deep|%d|%d' % (spec['deep'], step), 'deep:' + follow)
            if not ok:
                break
        acc.worst_of('max_level', max(max(e.levels) for e in ls.mesh.leaf_elements))
        acc.sample({'mesh': ms, 'follow': follow, 'axis': ax, 'steps': len(ls.history), 'max_level': max(max(e.levels) for e in ls.mesh.leaf_elements)}, 'deep%d' % spec['deep'])
    finally:
        log.close()


VERYDEEP = [
    # (initial mesh, direction, number of bisections): chains of ~1000 ancestors on boundary / interior / seam edges; the leaf sizes
    # go down to 2^-1060 (denormal, still exact), so the oracle below works on exact float comparisons only, not on levels
    ({'space_grid': [0, 1, 2], 'time_grid': [0, 1], 'glued': False}, 'time-to-0', 1060),
    ({'space_grid': [0, 1, 2], 'time_grid': [0, 1], 'glued': False}, 'space-to-0', 1060),
    ({'space_grid': [0, 1, 2, 3], 'time_grid': [0, 1], 'glued': True}, 'time-to-0', 1060),
]


def brute_check(leaves, glued, domain, want_neighbours=True):
    """Geometric rule by exact float comparison on the actual leaves (no levels, no divisions). Returns (problems, n_edges, raised)."""
    T0, T1, X0, X1 = domain
    by_t0, by_t1, by_x0, by_x1 = {}, {}, {}, {}
    for e in leaves:
        by_t0.setdefault(e.time_interval[0], []).append(e)
        by_t1.setdefault(e.time_interval[1], []).append(e)
        by_x0.setdefault(e.space_interval[0], []).append(e)
        by_x1.setdefault(e.space_interval[1], []).append(e)

    def overlap(a, b):
        return min(a[1], b[1]) > max(a[0], b[0])
    bad, n_edges = [], 0
    for e in leaves:
        (t0, t1), (x0, x1) = e.time_interval, e.space_interval
        want = [None] * 4
        bdr = [t0 == T0, (not glued) and x1 == X1, t1 == T1, (not glued) and x0 == X0]
        want[0] = [q for q in by_t1.get(t0, []) if overlap(q.space_interval, e.space_interval)]
        want[2] = [q for q in by_t0.get(t1, []) if overlap(q.space_interval, e.space_interval)]
        xr = X0 if (glued and x1 == X1) else x1
        xl = X1 if (glued and x0 == X0) else x0
        want[1] = [q for q in by_x0.get(xr, []) if overlap(q.time_interval, e.time_interval)]
        want[3] = [q for q in by_x1.get(xl, []) if overlap(q.time_interval, e.time_interval)]
        for k in range(4):
            n_edges += 1
            edge = e.edges[k]
            try:
                got = edge.neighbour_elements()
            except (Exception, RecursionError) as ex:
                fr = repo_frame(ex)
                if fr is None:
                    raise
                bad.append('neighbour lookup raised %s at %s:%d for a %s edge' % (type(ex).__name__, fr[1], fr[2], 'boundary' if bdr[k] else 'interior'))
                continue
            if bool(edge.on_boundary and not edge.glued) != bdr[k]:
                bad.append('boundary flag of an edge is %r where the geometry says %r' % (bool(edge.on_boundary and not edge.glued), bdr[k]))
            if {id(q) for q in got} != {id(q) for q in want[k]} or len(got) != len(want[k]):
                bad.append('reported neighbours differ from the geometric ones: %d reported, %d geometric (%s edge)' %
                           (len(got), len(want[k]), 'boundary' if bdr[k] else 'interior'))
            elif len(got) > 2 or (not bdr[k] and not got):
                bad.append('edge with %d neighbours (%s edge)' % (len(got), 'boundary' if bdr[k] else 'interior'))
    return bad, n_edges


def run_verydeep(spec, acc, focus):
    """About a thousand bisections towards t = 0 / x = 0: every leaf edge there has a chain of ~1000 ancestors."""
    import math
    from src.mesh import Mesh
    ms, direction, depth = VERYDEEP[spec['verydeep']]
    mesh = Mesh(glue_space=ms['glued'], initial_space_mesh=list(ms['space_grid']), initial_time_mesh=list(ms['time_grid']))
    domain = (ms['time_grid'][0], ms['time_grid'][-1], ms['space_grid'][0], ms['space_grid'][-1])
    area = (domain[1] - domain[0]) * (domain[3] - domain[2])
    ax = 0 if direction == 'time-to-0' else 1
    wit = {'mesh': ms, 'direction': direction}
    checkpoints = {10, 100, 400, 800, 960, 990, 1000, 1010, 1030, depth}
    e = [q for q in mesh.leaf_elements if q.time_interval[0] == domain[0] and q.space_interval[0] == domain[2]][0]
    steps = 0
    for step in range(1, depth + 1):
        try:
            mesh.refine_axis(e, ax)
        except (Exception, RecursionError) as ex:
            fr = repo_frame(ex)
            if fr is None:
                raise
            key = 'mesh-op-raised:%s:%s' % (fr[0], type(ex).__name__) if focus == 'C02' else 'neighbours:lookup-raised-during-refine:%s' % type(ex).__name__
            acc.violation(key, 'bisection number %d towards %s raised %s at %s:%d' % (step, direction, type(ex).__name__, fr[1], fr[2]), dict(wit, step=step))
            break
        steps = step
        e = e.children[0]
        acc.case('verydeep|%d|%d' % (spec['verydeep'], step), None)
        if step in checkpoints:
            leaves = list(mesh.leaf_elements)
            bad, n_edges = brute_check(leaves, ms['glued'], domain)
            acc.count('edges_checked', n_edges)
            if focus == 'C02':
                tot = math.fsum(q.h_t * q.h_x for q in leaves)
                bad = [b for b in bad if 'edge with' in b or 'raised' in b]
                if tot != area:
                    bad.append('leaf areas sum to %r, domain %r' % (tot, area))
                keyp = 'mesh-invariant(verydeep):'
            else:
                keyp = 'neighbours(verydeep):'
            for b in bad[:3]:
                acc.violation(keyp + mech(b), b, dict(wit, step=step, n_leaves=len(leaves)))
            if bad:
                break
    if steps == depth and direction == 'time-to-0':
        # a request whose closure has to walk the whole chain (each neighbour one time level coarser than the one before): deeper than
        # the interpreter's recursion limit, so the call may fail - on the unchanged tree with RecursionError - and the mesh object
        # it leaves behind is still a reachable state: tiling and bookkeeping must hold (a completed part of the closure is allowed)
        raised = None
        try:
            mesh.refine_axis(e, ax)
            mesh.refine_axis(e.children[1], ax)
        except (Exception, RecursionError) as ex:
            fr = repo_frame(ex)
            if fr is None:
                raise
            raised = type(ex).__name__
        acc.seen('deep:state-after-failed-operation', 1 if raised else 0)
        acc.extra['cascade_request'] = raised or 'completed'
        leaves = list(mesh.leaf_elements)
        childless, stack = [], list(mesh.roots)
        while stack:
            q = stack.pop()
            if q.children:
                stack.extend(q.children)
            else:
                childless.append(q)
        bad, n_edges = brute_check(leaves, ms['glued'], domain)
        if focus == 'C02':
            bad = [b for b in bad if 'edge with' in b or 'raised' in b]
            tot = math.fsum(q.h_t * q.h_x for q in leaves)
            if tot != area:
                bad.append('leaf areas sum to %r, domain %r' % (tot, area))
            if {id(q) for q in childless} != {id(q) for q in leaves} or len(leaves) != len(childless):
                bad.append('leaf collection differs from the set of childless elements: %d leaves, %d childless' % (len(leaves), len(childless)))
        for b in bad[:3]:
            acc.violation(('mesh-invariant(after-failed-operation):' if focus == 'C02' else 'neighbours(after-failed-operation):') + mech(b),
                          b + ' (after a cascade request that %s)' % ('raised ' + raised if raised else 'completed'), dict(wit, step='cascade', n_leaves=len(leaves)))
    acc.seen('deep:1000-ancestors:' + direction, 1 if steps >= 1040 else 0)
    acc.worst_of('max_level', max(max(q.levels) for q in mesh.leaf_elements))
    acc.sample({'mesh': ms, 'direction': direction, 'steps': steps, 'leaves': len(mesh.leaf_elements)}, 'verydeep%d' % spec['verydeep'])


def run_shard(spec, acc, focus):
    if spec['mode'] == 'deep':
        return run_deep(spec, acc, focus)
    if spec['mode'] == 'verydeep':
        return run_verydeep(spec, acc, focus)
    if spec['mode'] == 'suite':
        from .suite import run_suite
        return run_suite(acc, focus, spec['files'])
    if spec['mode'] == 'bfs':
        run_bfs(spec, acc, focus)
    else:
        run_random(spec, acc, focus)
