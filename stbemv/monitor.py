"""Monitors: wrappers installed from the harness on real functions of the imported repository.

wrap_everywhere() replaces the *same function object* in every loaded repository
namespace that holds it (the repository binds many functions by name at import
time), counts its own invocations, and can be undone.
"""
import functools
import sys

from . import env


class Monitor:
    def __init__(self, name):
        self.name = name
        self.calls = 0
        self.depth = 0
        self._undo = []

    def uninstall(self):
        for obj, attr, old in reversed(self._undo):
            setattr(obj, attr, old)
        self._undo = []


def wrap_method(cls, name, before=None, after=None, on_error=None):
    """Wrap cls.name. before(mon, args, kwargs) -> token ; after(mon, token, args, kwargs, result)."""
    orig = cls.__dict__[name]
    mon = Monitor('%s.%s' % (cls.__name__, name))

    @functools.wraps(orig)
    def wrapper(*args, **kwargs):
        mon.calls += 1
        token = before(mon, args, kwargs) if before else None
        mon.depth += 1
        try:
            result = orig(*args, **kwargs)
        except BaseException as ex:
            mon.depth -= 1
            if on_error:
                on_error(mon, token, args, kwargs, ex)
            raise
        mon.depth -= 1
        if after:
            r2 = after(mon, token, args, kwargs, result)
            if r2 is not None:
                result = r2
        return result

    setattr(cls, name, wrapper)
    mon._undo.append((cls, name, orig))
    mon.orig = orig
    return mon


def wrap_everywhere(func, make_wrapper):
    """Replace function object `func` by make_wrapper(func, mon) in all repository namespaces."""
    mon = Monitor(getattr(func, '__qualname__', repr(func)))
    new = make_wrapper(func, mon)
    functools.update_wrapper(new, func)
    n = 0
    for mod in env.repo_modules() + [m for k, m in sys.modules.items() if k == '__main__']:
        for attr, val in list(vars(mod).items()):
            if val is func:
                setattr(mod, attr, new)
                mon._undo.append((mod, attr, func))
                n += 1
    mon.sites = n
    mon.orig = func
    return mon


def repo_frame(ex):
    """Innermost traceback frame of `ex` that lies in the repository: (function, relative file, line) or None.
    An exception whose innermost frame is repository code escaped from the code under test; one raised in
    the harness is a harness bug and must not become a verdict."""
    import os
    import traceback
    frames = traceback.extract_tb(ex.__traceback__)
    if not frames:
        return None
    prefix = os.path.abspath(env.REPO) + os.sep
    if isinstance(ex, RecursionError):
        # the overflow may surface in a pass-through monitor frame; runaway recursion through repository
        # functions is the repository's
        n_repo = sum(1 for fr in frames if os.path.abspath(fr.filename).startswith(prefix))
        if n_repo > 50:
            fr = [f for f in frames if os.path.abspath(f.filename).startswith(prefix)][-1]
            return (fr.name, os.path.abspath(fr.filename)[len(prefix):], fr.lineno)
    # walk outwards from the innermost frame: the first frame that belongs to the repository or to this harness decides
    # (library frames below it - numpy, scipy, multiprocessing re-raising a worker's exception - are attributed to their caller)
    harness = os.path.abspath(env.VERIF) + os.sep
    for fr in reversed(frames):
        fn = os.path.abspath(fr.filename)
        if fn.startswith(prefix):
            return (fr.name, fn[len(prefix):], fr.lineno)
        if fn.startswith(harness):
            return None
    return None
