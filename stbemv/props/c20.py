"""C20 - h-h/2 and hierarchical estimators equal their definitions; prolongation preserves values."""
import random

ID = 'C20'
TITLE = 'HH2ErrorEstimator / HierarchicalErrorEstimator vs an independent recomputation on a really bisected copy; Prolongate'
LEVEL = 'exploration'
RULE = ('the real HH2ErrorEstimator.estimate and HierarchicalErrorEstimator.estimate run (serial and pool) on random meshes of the four '
        'closed curves for problems with and without initial data, with random and Galerkin densities. Independent recomputation: the '
        'mesh history is replayed on a second MeshParametrized, every leaf is quartered by real bisection (uniform_refine), quarters are '
        'identified by geometry, the fine matrix and data come from single bilform / linform / g-linform calls on the real fine leaves; '
        'h-h/2 = sqrt(d^T A d) with d = fine Galerkin solution - piecewise-constant extension (by geometric containment), compared at 1e-8 '
        'relative (+1e-12 of the density norm); it must vanish (<= 1e-7 of the solution norm) when the data are chosen so that the '
        'extension solves the fine problem. Hierarchical: per leaf |<data - V Phi, psi>|^2 / <V psi, psi> for the geometrically defined '
        'time-split, space-split and checkerboard functions; time = psi_t + psi_c/2, space = psi_x + psi_c/2; non-negative; 1e-8 relative '
        'plus the propagated rounding floor. Prolongate on really nested meshes: every fine value equals the value of the coarse leaf that '
        'contains it; identity on equal lists. distinct = distinct (curve, mesh, problem, density, path) estimator calls + prolongations')
RULE += ' ' + 'After the calls on the whole mesh a second, different call is made in the same process (a sub-list of the elements with another density; definition recomputed from the corresponding sub-blocks): the estimators hand their lists to pool workers through module globals.'
ASSUMPTIONS = [
    'meshes up to ~40 elements (quick) / ~150 (thorough); with initial data the coarse mesh is kept small (each load entry costs ~0.1 s)',
    'rounding floor of a hierarchical indicator (a squared difference): (2|delta| eps + eps^2)/<V psi,psi> with eps = 1e-12*(|<data,psi>| + sum_j |Phi_j||<V 1_j,psi>|)',
]
REQUIRED = {t: ['est:hh2', 'est:hierarchical', 'est:prolongate', 'path:serial', 'path:pool', 'density:random', 'density:galerkin',
                'data:initial', 'data:dirichlet', 'data:both', 'hh2:vanishes', 'curve:UnitSquare', 'curve:PiSquare', 'curve:LShape', 'curve:Circle',
                'prolongate:identity', 'prolongate:nested', 'prolongate:same-partition-other-order', 'history:second-call-other-list', 'history:same-length-other-order']
            for t in ('quick', 'thorough')}
TIMEOUT = {'quick': 1800, 'thorough': 9000}
CURVES = ['UnitSquare', 'PiSquare', 'LShape', 'Circle']
# 'Mixed': Dirichlet datum t^2 together with the initial datum of the Singular/Smooth problem on the same domain (both terms of
# data = g - M0 u0 present at once; legal for both estimators although no shipped problem combines them)
COMBOS = [('Mixed', 'UnitSquare'), ('Mixed', 'LShape'), ('Dirichlet', 'UnitSquare'), ('Dirichlet', 'Circle'), ('MildSingular', 'LShape'), ('MildSingular', 'PiSquare'), ('Dirichlet', 'LShape'),
          ('MildSingular', 'Circle'), ('Smooth', 'UnitSquare'), ('Singular', 'LShape'), ('Smooth', 'PiSquare'), ('Singular', 'UnitSquare')]


def plan(tier, seed):
    specs = []
    for i, (p, d) in enumerate(COMBOS):
        for k in range(1 if tier == 'quick' else 3):
            init = p in ('Smooth', 'Singular', 'Mixed')
            specs.append({'name': 'est-%s-%s-%d' % (p, d, k), 'mode': 'est', 'problem': p, 'domain': d, 'rseed': seed * 401 + 7 * i + k,
                          'n_ops': (2 if init else 14) + (4 if init else 14) * k if tier == 'quick' else (6 if init else 40) + (5 if init else 30) * k,
                          'pool': (i + k) % 2 == 0})
    for k in range(4 if tier == 'quick' else 16):
        specs.append({'name': 'prolong-%d' % k, 'mode': 'prolong', 'rseed': seed * 409 + k, 'n': 6 if tier == 'quick' else 20})
    return specs


def rect(e):
    return (e.time_interval[0], e.time_interval[1], e.space_interval[0], e.space_interval[1])


def run_est(spec, acc):
    import multiprocessing as mp
    import numpy as np
    from ..monitor import repo_frame
    from ..workloads.meshes import LockStep
    import problems
    from src import initial_mesh as IM
    from src.h_h2_error_estimator import HH2ErrorEstimator
    from src.hierarchical_error_estimator import HierarchicalErrorEstimator
    from src.initial_potential import InitialOperator
    from src.single_layer import SingleLayerOperator
    p, d = spec['problem'], spec['domain']
    rng = random.Random(spec['rseed'])
    ms = {'curve': d}
    if d == 'LShape':
        ms['presplit_long'] = True
    ls = LockStep(ms)
    for _ in range(spec['n_ops']):
        L = ls.leaves()
        e = L[rng.randrange(len(L))]
        ax = rng.randrange(2)
        if ax == 0 and e.h_x**2 / (e.h_t / 2) > 16:   # quarters of the estimators double nothing, but keep the fine mesh in scope
            ax = 1
        ls.apply(('b', L.index(e), ax))
    for _ in range(40):
        off = [e for e in ls.mesh.leaf_elements if e.h_x**2 / e.h_t > 32]
        if not off:
            break
        for e in off:
            if not e.children:
                ls.bisect(e, 1)
                ls.history.append(['b-rect', rect(e), 1])
    mesh = ls.mesh
    elems = list(mesh.leaf_elements)
    N = len(elems)
    wit0 = {'problem': p, 'domain': d, 'mesh': ms, 'history': ls.history, 'n_elements': N}
    acc.seen('curve:' + d)
    if p == 'Mixed':
        data = dict(problems.problem_helper('Singular', d))
        data.update(problems.problem_helper('MildSingular', d))
    else:
        data = problems.problem_helper(p, d)
    init = 'u0' in data
    if init and 'g' in data:
        acc.seen('data:both')
    acc.seen('data:initial' if init else 'data:dirichlet')
    factory = getattr(IM, d + 'BoundaryRefined') if init else None
    SL = SingleLayerOperator(mesh)
    M0 = InitialOperator(bdr_mesh=mesh, u0=data['u0'], initial_mesh=factory) if init else None
    glin = data.get('g-linform')
    # ---- independent side: replay, quarter by real bisection
    cp = LockStep(ms)
    for op in ls.history:
        if op[0] == 'b-rect':
            tgt = [e for e in cp.mesh.leaf_elements if rect(e) == tuple(op[1])][0]
            cp.bisect(tgt, op[2])
        else:
            cp.apply(tuple(op))
    coarse_rects = [rect(e) for e in cp.mesh.leaf_elements]
    if sorted(coarse_rects) != sorted(rect(e) for e in elems):
        raise RuntimeError('replay does not reproduce the mesh')
    cp.mesh.uniform_refine()
    fine = list(cp.mesh.leaf_elements)
    SLf = SingleLayerOperator(cp.mesh)
    # containment map fine -> coarse index (by geometry)
    cidx = {rect(e): i for i, e in enumerate(elems)}
    parent_of = []
    for f in fine:
        r = rect(f)
        owner = [i for rr, i in cidx.items() if rr[0] <= r[0] and r[1] <= rr[1] and rr[2] <= r[2] and r[3] <= rr[3]]
        if len(owner) != 1:
            raise RuntimeError('fine leaf not contained in exactly one coarse leaf')
        parent_of.append(owner[0])
    nf = len(fine)
    if nf != 4 * N:
        raise RuntimeError('uniform_refine did not quarter every leaf')
    try:
        A = np.zeros((nf, nf))
        for i, te in enumerate(fine):
            for j, tr in enumerate(fine):
                A[i, j] = SLf.bilform(tr, te)
        B = np.zeros((nf, N))       # fine test x coarse trial
        for i, te in enumerate(fine):
            for j, tr in enumerate(elems):
                B[i, j] = SLf.bilform(tr, te)
        rhs = np.zeros(nf)
        if glin:
            rhs += glin(fine)
        if init:
            M0f = InitialOperator(bdr_mesh=cp.mesh, u0=data['u0'], initial_mesh=factory)
            rhs -= np.array([M0f.linform(f)[0] for f in fine])
        Ac = SL.bilform_matrix(elems, elems, use_mp=False)
        rhs_c = np.zeros(N)
        if glin:
            rhs_c += glin(elems)
        if init:
            rhs_c -= np.array([M0.linform(e)[0] for e in elems])
        Phi_gal = np.linalg.solve(Ac, rhs_c)
    except Exception as ex:
        fr = repo_frame(ex)
        if fr is None:
            raise
        acc.violation('setup-raised:%s:%s' % (fr[0], type(ex).__name__), '%s/%s: raised %s at %s:%d' % (p, d, type(ex).__name__, fr[1], fr[2]), wit0)
        return
    real_cpu = mp.cpu_count

    def run_calls(elems, N, fine, nf, parent_of, A, B, rhs, densities, wit0, call):
        Phi_fine = np.linalg.solve(A, rhs)
        for dens, Phi in densities:
            ext = np.array([Phi[k] for k in parent_of])
            dvec = Phi_fine - ext
            want = float(np.sqrt(max(dvec @ (A @ dvec), 0.0)))
            normPhi = float(np.sqrt(abs(ext @ (A @ ext))))
            for use_mp in ([False, True] if spec['pool'] else [False]):
                w = dict(wit0, density=dens, use_mp=use_mp)
                if use_mp:
                    mp.cpu_count = lambda: 3
                try:
                    got = float(HH2ErrorEstimator(SL, M0=M0, g=glin, use_mp=use_mp).estimate(elems, Phi))
                except Exception as ex:
                    fr = repo_frame(ex)
                    if fr is None:
                        raise
                    acc.violation('hh2-raised:%s:%s' % (fr[0], type(ex).__name__), '%s/%s: raised %s at %s:%d' % (p, d, type(ex).__name__, fr[1], fr[2]), w)
                    continue
                finally:
                    mp.cpu_count = real_cpu
                acc.case('%s|%s|%d|hh2|%s|%s' % (p, d, spec['rseed'], dens, use_mp), None)
                acc.seen('est:hh2')
                acc.seen('path:' + ('pool' if use_mp else 'serial'))
                acc.seen('density:' + dens)
                err = abs(got - want)
                acc.worst_of('hh2 rel.err', err / max(want, 1e-300))
                if not (err <= 1e-8 * want + 1e-12 * normPhi) or not np.isfinite(got):
                    acc.violation('hh2-differs-from-definition', '%s/%s (%s density, use_mp=%r): estimator %.15g, definition %.15g' % (p, d, dens, use_mp, got, want),
                                  dict(w, computed=got, definition=want))
            # ---- hierarchical (always uses the pool inside)
            mp.cpu_count = lambda: 2
            try:
                H = HierarchicalErrorEstimator(SL, M0=M0, g=glin).estimate(elems, Phi)
            except Exception as ex:
                fr = repo_frame(ex)
                if fr is None:
                    raise
                acc.violation('hierarchical-raised:%s:%s' % (fr[0], type(ex).__name__), '%s/%s: raised %s at %s:%d' % (p, d, type(ex).__name__, fr[1], fr[2]), dict(wit0, density=dens))
                continue
            finally:
                mp.cpu_count = real_cpu
            acc.seen('est:hierarchical')
            acc.seen('path:pool')
            H = np.asarray(H)
            if H.shape != (N, 2):
                acc.violation('hierarchical-shape', 'returned shape %r for %d elements' % (H.shape, N), dict(wit0, density=dens))
                continue
            for ci, e in enumerate(elems):
                r = rect(e)
                tm, xm = (r[0] + r[1]) / 2, (r[2] + r[3]) / 2
                q = [k for k in range(nf) if parent_of[k] == ci]
                if len(q) != 4:
                    raise RuntimeError('quarters')
                st = np.array([1.0 if fine[k].time_interval[1] <= tm else -1.0 for k in q])
                sx = np.array([1.0 if fine[k].space_interval[1] <= xm else -1.0 for k in q])
                vals = []
                floors = []
                for psi in (st, sx, st * sx):
                    dpsi = float(np.dot(psi, rhs[q]))
                    vpsi = float(np.dot(psi, B[q] @ Phi))
                    den = float(psi @ (A[np.ix_(q, q)] @ psi))
                    delta = dpsi - vpsi
                    vals.append(delta * delta / den)
                    eps = 1e-12 * (abs(np.dot(np.abs(psi), np.abs(rhs[q]))) + float(np.abs(psi) @ (np.abs(B[q]) @ np.abs(Phi))))
                    floors.append((2 * abs(delta) * eps + eps * eps) / den)
                want_t, want_x = vals[0] + 0.5 * vals[2], vals[1] + 0.5 * vals[2]
                fl_t, fl_x = floors[0] + 0.5 * floors[2], floors[1] + 0.5 * floors[2]
                acc.case('%s|%s|%d|hier|%s|%r' % (p, d, spec['rseed'], dens, r), None)
                for nm, got, want, fl in (('time', H[ci, 0], want_t, fl_t), ('space', H[ci, 1], want_x, fl_x)):
                    if not (got >= 0):
                        acc.violation('hierarchical-negative', '%s/%s: %s indicator %r' % (p, d, nm, got), dict(wit0, density=dens, elem=r))
                    err = abs(got - want)
                    acc.worst_of('hierarchical err/(1e-8 rel + floor)', err / (1e-8 * abs(want) + fl + 1e-300))
                    if not (err <= 1e-8 * abs(want) + fl):
                        acc.violation('hierarchical-differs-from-definition:' + nm,
                                      '%s/%s: %s indicator of %r: %.15g, definition %.15g' % (p, d, nm, r, got, want), dict(wit0, density=dens, elem=r))
    run_calls(elems, N, fine, nf, parent_of, A, B, rhs, [('galerkin', Phi_gal), ('random', np.array([rng.uniform(-1, 1) for _ in range(N)]))], wit0, 'first')
    # ---- a second, different call in the same process (the estimators publish their lists to pool workers through module globals):
    # a sub-list of the elements with another density; the definition is recomputed from the corresponding sub-blocks
    if N >= 6:
        # next call: all elements again, in another order - a list of the SAME length as the one before (state kept per operator or per
        # process and keyed by the length of the list would not be refreshed)
        perm = list(range(N))
        rng.shuffle(perm)
        pos = {c: i for i, c in enumerate(perm)}
        fperm = sorted(range(nf), key=lambda k: (pos[parent_of[k]], k))
        run_calls([elems[c] for c in perm], N, [fine[k] for k in fperm], nf, [pos[parent_of[k]] for k in fperm],
                  A[np.ix_(fperm, fperm)], B[np.ix_(fperm, perm)], rhs[fperm], [('random-on-permuted-list', np.array([rng.uniform(-1, 1) for _ in perm]))],
                  dict(wit0, call='second call in the process, all elements in another order'), 'second-permuted')
        acc.seen('history:same-length-other-order')
        sel = sorted(rng.sample(range(N), N - max(2, N // 3)))
        pos = {c: i for i, c in enumerate(sel)}
        fsel = [k for k in range(nf) if parent_of[k] in pos]
        run_calls([elems[c] for c in sel], len(sel), [fine[k] for k in fsel], len(fsel), [pos[parent_of[k]] for k in fsel],
                  A[np.ix_(fsel, fsel)], B[np.ix_(fsel, sel)], rhs[fsel], [('random-on-sublist', np.array([rng.uniform(-1, 1) for _ in sel]))],
                  dict(wit0, call='third call in the process, on a sub-list of %d of the %d elements' % (len(sel), N)), 'second')
        acc.seen('history:second-call-other-list')
    # ---- h-h/2 vanishes when the extension solves the fine problem
    Phi = np.array([rng.uniform(-1, 1) for _ in range(N)])

    def g_compatible(elems_fine):
        Mf = np.zeros((len(elems_fine), len(elems_fine)))
        for i, te in enumerate(elems_fine):
            for j, tr in enumerate(elems_fine):
                Mf[i, j] = SL.bilform(tr, te)
        return Mf @ np.repeat(Phi, 4)
    try:
        got = float(HH2ErrorEstimator(SL, M0=None, g=g_compatible, use_mp=False).estimate(elems, Phi))
        ext = np.array([Phi[k] for k in parent_of])
        norm = float(np.sqrt(abs(ext @ (A @ ext))))
        acc.case('%s|%s|%d|hh2-vanish' % (p, d, spec['rseed']), None)
        acc.seen('hh2:vanishes')
        acc.worst_of('hh2 on compatible data / solution norm', got / norm)
        if not (got <= 1e-7 * norm):
            acc.violation('hh2-does-not-vanish', '%s/%s: estimator %.3e for a density whose extension solves the fine problem (solution norm %.3e)' % (p, d, got, norm), wit0)
    except Exception as ex:
        fr = repo_frame(ex)
        if fr is None:
            raise
        acc.violation('hh2-raised:%s:%s' % (fr[0], type(ex).__name__), '%s/%s: raised at %s:%d' % (p, d, fr[1], fr[2]), wit0)
    acc.sample({'problem': p, 'domain': d, 'n_elements': N, 'history_head': ls.history[:4]}, p + d)


def run_prolong(spec, acc):
    import numpy as np
    from ..monitor import repo_frame
    from ..workloads.meshes import LockStep
    from src.mesh import Prolongate
    rng = random.Random(spec['rseed'])
    for case in range(spec['n']):
        d = CURVES[(spec['rseed'] + case) % 4]
        ls = LockStep({'curve': d, 'time_grid': rng.choice([[0, 1], [0, 0.5, 1]])})
        for _ in range(rng.randint(0, 25)):
            L = ls.leaves()
            ls.apply(('b', rng.randrange(len(L)), rng.randrange(2)))
        coarse = list(ls.mesh.leaf_elements)
        vec = np.array([rng.uniform(-5, 5) for _ in coarse])
        w = {'curve': d, 'history': list(ls.history)}
        try:
            same = Prolongate(vec, coarse, list(coarse))
            acc.case('prolong|%d|%d|id' % (spec['rseed'], case), None)
            acc.seen('prolongate:identity')
            acc.seen('est:prolongate')
            if not np.array_equal(same, vec):
                acc.violation('prolongate-not-identity', '%s: prolongation onto the same list changes values' % d, w)
            # the same partition enumerated in other orders (re-indexing a density: sorted by time, reversed, shuffled), and fine lists
            # that are only partly refined / not refined at all (kind 'random' with few steps below)
            for oname, perm in (('reversed', list(reversed(range(len(coarse))))), ('by-time', sorted(range(len(coarse)), key=lambda i: (coarse[i].time_interval, coarse[i].space_interval))),
                                ('shuffled', rng.sample(range(len(coarse)), len(coarse)))):
                out = Prolongate(vec, coarse, [coarse[i] for i in perm])
                acc.case('prolong|%d|%d|perm-%s' % (spec['rseed'], case, oname), None)
                acc.seen('prolongate:same-partition-other-order')
                if len(out) != len(perm) or any(out[j] != vec[i] for j, i in enumerate(perm)):
                    acc.violation('prolongate-wrong-ancestor:same-partition-other-order',
                                  '%s: prolongation onto the same leaves listed in another order (%s) does not give every leaf its own value' % (d, oname), dict(w, order=oname))
            kind = rng.choice(['random', 'uniform', 'dorfler'])
            if kind == 'random':
                for _ in range(rng.randint(1, 30)):
                    L = ls.leaves()
                    ls.mesh.refine_axis(L[rng.randrange(len(L))], rng.randrange(2))
            elif kind == 'uniform':
                ls.mesh.uniform_refine()
            else:
                ls.mesh.dorfler_refine_anisotropic(np.array([[rng.random(), rng.random()] for _ in coarse]), 0.7)
            fine = list(ls.mesh.leaf_elements)
            rng.shuffle(fine)
            out = Prolongate(vec, coarse, fine)
            cr = [(rect(c), i) for i, c in enumerate(coarse)]
            acc.case('prolong|%d|%d|%s' % (spec['rseed'], case, kind), None)
            acc.seen('prolongate:nested')
            bad = 0
            for j, f in enumerate(fine):
                r = rect(f)
                owner = [i for rr, i in cr if rr[0] <= r[0] and r[1] <= rr[1] and rr[2] <= r[2] and r[3] <= rr[3]]
                if len(owner) != 1 or out[j] != vec[owner[0]]:
                    bad += 1
            if bad or len(out) != len(fine):
                acc.violation('prolongate-wrong-ancestor', '%s: %d of %d fine values differ from the value of the containing coarse leaf (%s refinement)' % (d, bad, len(fine), kind), dict(w, kind=kind))
        except Exception as ex:
            fr = repo_frame(ex)
            if fr is None:
                raise
            acc.violation('prolongate-raised:%s' % type(ex).__name__, '%s: raised at %s:%d' % (d, fr[1], fr[2]), w)
    acc.sample({'mode': 'prolongate', 'cases': spec['n']}, 'prolong')


def run_shard(spec, acc):
    {'est': run_est, 'prolong': run_prolong}[spec['mode']](spec, acc)
