"""C12 - Galerkin entries respect the symmetries of the kernel and of the curve."""
import math
import random
from fractions import Fraction

ID = 'C12'
TITLE = 'exchange of space intervals and exact time shifts bit for bit; curve motions to 1e-7 of the diagonal scale'
LEVEL = 'exploration'
RULE = ('pairs of real bilform calls related by (i) exchanging the two space intervals with the time intervals fixed, (ii) a common '
        'time shift that is exact in floating point (checked with Fraction; inexact ones are skipped and counted), (iii) a motion of '
        'the curve: rotation by k sides of a square, by 2*pi*k/2^m of the circle, reflection x -> L - x. Images are elements whose '
        'space interval is produced by transplanting the bisection path of the original into the image side (same float midpoints '
        'the mesh would compute), on the piece object that contains it. (i) and (ii) must agree bit for bit, (iii) to '
        '1e-7*sqrt(D_test*D_trial). Pairs come from random aspect-bounded meshes; every pair class of C01 is moved across the seam '
        'by some rotation. distinct = distinct (curve, mesh, pair, relation, switch)')
ASSUMPTIONS = ['L-shape: exchange and time shift only (no non-trivial symmetry is claimed)',
               'a time shift is used only if all four shifted end points are exact (Fraction equality), so that all four time differences are unchanged']
REQUIRED = {t: ['rel:exchange', 'rel:time-shift', 'rel:time-shift:thin-slab-to-late-time', 'rel:rotation', 'rel:reflection', 'moved:interior->seam-touch', 'moved:onto-other-side', 'pair:synthetic-coarse-fine', 'pair:synthetic-nested-thin-slab',
                'switch:exact', 'switch:quad', 'curve:UnitSquare', 'curve:PiSquare', 'curve:LShape', 'curve:Circle']
            for t in ('quick', 'thorough')}
TIMEOUT = {'quick': 900, 'thorough': 5400}
CURVES = ['UnitSquare', 'PiSquare', 'LShape', 'Circle']


def plan(tier, seed):
    specs = []
    for c in CURVES:
        for k in range(3 if tier == 'quick' else 40):
            specs.append({'name': 'mesh-%s-%d' % (c, k), 'curve': c, 'rseed': seed * 733 + k, 'n_ops': 20 + 8 * k if tier == 'quick' else 30 + 5 * k,
                          'n_pairs': 140 if tier == 'quick' else 900})
    return specs


def path_in(root, iv):
    """Bisection path (list of 0/1) from interval `root` to `iv` using float midpoints; None if iv is not a dyadic descendant."""
    a, b = root
    path = []
    for _ in range(60):
        if (a, b) == tuple(iv):
            return path
        m = (a + b) / 2
        if iv[1] <= m:
            b = m
            path.append(0)
        elif iv[0] >= m:
            a = m
            path.append(1)
        else:
            return None
    return None


def descend(root, path):
    a, b = root
    for bit in path:
        m = (a + b) / 2
        if bit == 0:
            b = m
        else:
            a = m
    return (a, b)


def run_shard(spec, acc):
    import numpy as np
    from ..monitor import repo_frame
    from ..oracles import refint
    from ..workloads import slpairs
    from src.single_layer import SingleLayerOperator
    from src.hierarchical_error_estimator import DummyElement
    from src.mesh import Vertex
    curve = spec['curve']
    rng = random.Random(spec['rseed'] * 29 + CURVES.index(curve))
    ls, geo = slpairs.make_mesh(curve, spec['rseed'] * 23 + CURVES.index(curve), spec['n_ops'], time_grid=rng.choice([[0, 1], [0, 0.5, 1]]))
    mesh = ls.mesh
    gamma = mesh.gamma_space
    elems = list(mesh.leaf_elements)
    L = geo.length
    wit0 = {'curve': curve, 'mesh': ls.spec, 'history': ls.history}
    acc.seen('curve:' + curve)
    SLs = {False: SingleLayerOperator(mesh, pw_exact=False), True: SingleLayerOperator(mesh, pw_exact=True)}
    # sides as roots for transplanting (circle: the four quarter arcs the initial mesh consists of)
    if geo.circle:
        q = [0.0, L / 4 if False else (0 + L) / 2 / 2, (0 + L) / 2, ((0 + L) / 2 + L) / 2, L]
        sides = [(q[i], q[i + 1]) for i in range(4)]
    else:
        sides = [(geo.starts[i], geo.starts[i + 1]) for i in range(len(geo.starts) - 1)]
    ns = len(sides)

    def piece_obj(iv):
        p = geo.piece_of(iv[0], iv[1])
        return gamma.pw_gamma[p]

    def dummy(tiv, xiv):
        vs = [Vertex(tiv[0], xiv[0], -1), Vertex(tiv[0], xiv[1], -1), Vertex(tiv[1], xiv[1], -1), Vertex(tiv[1], xiv[0], -1)]
        return DummyElement(vs, piece_obj(xiv))

    def locate(iv):
        for si, s in enumerate(sides):
            if s[0] <= iv[0] and iv[1] <= s[1]:
                p = path_in(s, iv)
                if p is not None:
                    return si, p
        return None

    def rotate(iv, k, sub=None):
        """image of interval under rotation by k sides (and, on the circle, a further dyadic fraction `sub` of a side)."""
        loc = locate(iv)
        if loc is None:
            return None
        si, p = loc
        if sub:  # circle: rotate by j/2^m of a quarter arc: shift the dyadic index at depth >= m
            m, j = sub
            if len(p) < m:
                return None
            idx = 0
            for bit in p[:m]:
                idx = 2 * idx + bit
            idx += j
            carry, idx = divmod(idx, 2**m)
            head = [(idx >> (m - 1 - q)) & 1 for q in range(m)]
            p = head + p[m:]
            si = si + carry
        return descend(sides[(si + k) % ns], p)

    def reflect(iv):
        loc = locate(iv)
        if loc is None:
            return None
        si, p = loc
        return descend(sides[ns - 1 - si], [1 - b for b in p])

    n = len(elems)
    pairs = [(i, j) for i in range(n) for j in range(n)]
    rng.shuffle(pairs)
    pairs = pairs[:spec['n_pairs']]
    # synthetic leaves (as the estimators build them): a coarse panel (space level 1-3 of a side) and a fine one (level 4-8) close to it,
    # possibly on the next side or across the seam, in thin time slabs - the pairs a mesh graded towards a corner over several
    # slabs contains; appended to the element list so that they run through exactly the same relations
    extra = []
    for _ in range(spec['n_pairs'] // 2 if curve != 'LShape' else 0):
        si = rng.randrange(ns)
        lc, lf = rng.randint(0, 3), rng.randint(3, 8)
        pc = [rng.randrange(2) for _ in range(lc)]
        coarse = descend(sides[si], pc)
        where = rng.choice(['same', 'next', 'next', 'prev']) if lc > 0 else rng.choice(['next', 'prev'])
        sj = {'same': si, 'next': (si + 1) % ns, 'prev': (si - 1) % ns}[where]
        off = rng.choice([0, 0, 1, 1, 2, 3])       # how many fine panels away from the common point
        if where == 'same':
            # in the sibling half of the coarse panel's parent, near the common point
            pf = list(pc[:-1]) + [1 - pc[-1]] + [pc[-1]] * (lf - lc)
        elif where == 'next':
            pf = [(off >> (lf - 1 - q)) & 1 for q in range(lf)]
        else:
            idx = 2**lf - 1 - off
            pf = [(idx >> (lf - 1 - q)) & 1 for q in range(lf)]
        fine = descend(sides[sj], pf)
        # thin time slabs (the property puts no aspect restriction on the symmetry: both twins go through the same rule)
        ht = 2.0**-rng.randint(4, 12)
        k0 = rng.randint(0, 3)
        lag = rng.choice([0, 1, 2, 5])
        tc = (k0 * ht, (k0 + 1) * ht)
        tf = ((k0 + lag) * ht, (k0 + lag + 1) * ht)
        for (tt_, xx_) in ((tf, fine), (tc, coarse)):
            extra.append(dummy(tt_, xx_))
        pairs.append((n + len(extra) - 2, n + len(extra) - 1))
        if lag == 0:
            pairs.append((n + len(extra) - 1, n + len(extra) - 2))
        acc.seen('pair:synthetic-coarse-fine')
    # synthetic NESTED pairs in thin slabs: a panel of space level 0-3 of a side and a panel 2-5 levels deeper inside it (strictly inside,
    # or sharing an end), in different slabs (a leaf and a finer leaf over it, as under local refinement in space over several slabs)
    for q_ in range(spec['n_pairs'] // 3 if curve != 'LShape' else 0):
        si = rng.randrange(ns)
        pc = [rng.randrange(2) for _ in range(rng.randint(0, 3))]
        pf = pc + [rng.randrange(2) for _ in range(rng.randint(2, 5))]
        coarse, fine = descend(sides[si], pc), descend(sides[si], pf)
        ht = 2.0**-rng.randint(4, 14)
        k0, lag = rng.randint(0, 3), rng.choice([1, 1, 2, 5])
        tc, tf = (k0 * ht, (k0 + 1) * ht), ((k0 + lag) * ht, (k0 + lag + 1) * ht)
        if rng.random() < 0.5:
            tc, tf = tf, tc
        if q_ == 0 and curve == 'UnitSquare' and spec['name'] == 'mesh-UnitSquare-0':
            # the recorded finding's own witness (K5): a quarter of side 0 strictly inside the whole side, slabs of height 2^-12
            coarse, fine, tc, tf = sides[0], descend(sides[0], [0, 1]), (0.0, 2.0**-12), (2.0**-11, 3 * 2.0**-12)
        for (tt_, xx_) in ((tf, fine), (tc, coarse)):
            extra.append(dummy(tt_, xx_))
        a_, b_ = n + len(extra) - 2, n + len(extra) - 1
        pairs.append((a_, b_) if tf[0] > tc[0] else (b_, a_))
        acc.seen('pair:synthetic-nested-thin-slab')
    elems = elems + extra
    for i, j in pairs:
        test, trial = elems[i], elems[j]
        if test.time_interval[1] <= trial.time_interval[0]:
            continue
        D = (refint.diagonal(geo, test.h_t, test.h_x) * refint.diagonal(geo, trial.h_t, trial.h_x))**0.5
        tt, tx, rt, rx = test.time_interval, test.space_interval, trial.time_interval, trial.space_interval
        w = dict(wit0, test=(tt, tx), trial=(rt, rx))
        for exact in (False, True):
            SL = SLs[exact]
            sw = 'exact' if exact else 'quad'
            acc.seen('switch:' + sw)
            try:
                base = SL.bilform(trial, test)
                # the original leaves and equivalent dummies must agree bit for bit (the estimators rely on it)
                base_d = SL.bilform(dummy(rt, rx), dummy(tt, tx))
                if base_d != base:
                    acc.violation('dummy-differs-from-leaf:' + sw, '%s: bilform on equivalent synthetic elements %r vs %r' % (curve, base_d, base), w)
                # (i) exchange of the space intervals (needs aspect <= 32 for the swapped elements too)
                if (rx[1] - rx[0])**2 / (tt[1] - tt[0]) <= 32 and (tx[1] - tx[0])**2 / (rt[1] - rt[0]) <= 32:
                    v = SL.bilform(dummy(rt, tx), dummy(tt, rx))
                    acc.case('%s|%d|%d|%d|ex|%s' % (curve, spec['rseed'], i, j, sw), None)
                    acc.seen('rel:exchange')
                    if v != base:
                        acc.violation('exchange-not-bitwise:' + sw, '%s: %.17g vs %.17g after exchanging the space intervals' % (curve, v, base), w)
                # (ii) exact time shift
                for delta in (0.5, 1.0, 0.25, 3.0, rng.choice([0.125, 2.0, 0.75])):
                    ok = all(Fraction(x + delta) == Fraction(x) + Fraction(delta) for x in tt + rt)
                    if not ok:
                        acc.count('time_shift_inexact_skipped')
                        continue
                    v = SL.bilform(dummy((rt[0] + delta, rt[1] + delta), rx), dummy((tt[0] + delta, tt[1] + delta), tx))
                    acc.case('%s|%d|%d|%d|ts%r|%s' % (curve, spec['rseed'], i, j, delta, sw), None)
                    acc.seen('rel:time-shift')
                    if v != base:
                        acc.violation('time-shift-not-bitwise:' + sw, '%s: %.17g vs %.17g after shifting both time intervals by %r' % (curve, v, base, delta), dict(w, delta=delta))
                # (iii) curve motions
                if curve == 'LShape':
                    continue
                motions = [('rotation', k, None) for k in range(1, ns)]
                if geo.circle:
                    motions += [('rotation', rng.randrange(ns), (m, rng.randrange(1, 2**m))) for m in (1, 2, 3)]
                motions.append(('reflection', 0, None))
                for kind, k, sub in motions:
                    if kind == 'rotation':
                        ix, jx = rotate(tx, k, sub), rotate(rx, k, sub)
                    else:
                        ix, jx = reflect(tx), reflect(rx)
                    if ix is None or jx is None:
                        acc.count('motion_not_applicable')
                        continue
                    v = SL.bilform(dummy(rt, jx), dummy(tt, ix))
                    err = abs(v - base) / D if np.isfinite(v) else float('inf')
                    acc.case('%s|%d|%d|%d|%s%d%r|%s' % (curve, spec['rseed'], i, j, kind, k, sub, sw), None)
                    acc.seen('rel:' + kind)
                    c0 = slpairs.space_relation(geo, tx, rx)
                    c1 = slpairs.space_relation(geo, ix, jx)
                    if c0 in ('touch-same-piece', 'touch-corner') and c1 == 'touch-seam':
                        acc.seen('moved:interior->seam-touch')
                    if geo.piece_of(*ix) != geo.piece_of(*tx):
                        acc.seen('moved:onto-other-side')
                    if geo.circle and c1 != c0:
                        acc.seen('moved:onto-other-side')
                    acc.worst_of('%s (%s)' % (kind, sw), err)
                    if not (err <= 1e-7):
                        key = 'motion-changes-entry:%s:%s' % (kind, sw)
                        if kind == 'reflection' and c0 == 'nested-interior':
                            # recorded finding K5 (known-findings.txt): strictly nested pairs take different quadrature routes in the two
                            # orientations; measured on 18 000 synthetic pairs: difference <= 1.6e-9 * A * R (A = H^2/h_t of the containing
                            # panel, R = H/h the length ratio), above 1e-7 from A*R ~ 2000 on, saturating at 1.5e-3
                            big, small = (test, trial) if test.h_x >= trial.h_x else (trial, test)
                            asp_ratio = big.h_x**2 / big.h_t * (big.h_x / small.h_x)
                            if asp_ratio >= 1024 and err <= min(5e-9 * asp_ratio, 5e-3):
                                key = 'motion-changes-entry:reflection:nested-interior:thin-slab'
                        acc.violation(key,
                                      '%s: entry %.17g, after %s (k=%d, sub=%r) %.17g: %.3e of the diagonal scale; image test %r trial %r'
                                      % (curve, base, kind, k, sub, v, err, ix, jx), dict(w, motion=[kind, k, sub], image_test=ix, image_trial=jx))
            except Exception as ex:
                fr = repo_frame(ex)
                if fr is None:
                    raise
                acc.violation('bilform-raised:%s:%s' % (fr[0], type(ex).__name__), '%s: raised %s at %s:%d' % (curve, type(ex).__name__, fr[1], fr[2]), w)
    # very thin slabs (time level 13-24) shifted to late times: the time lags are tiny relative to the absolute time there, and the entry
    # must still depend on time differences only (relation (ii) alone: bit for bit; no accuracy or motion is asked at these aspects)
    for _ in range(40 if curve != 'LShape' else 20):
        si = rng.randrange(ns)
        pc = [rng.randrange(2) for _ in range(rng.randint(1, 4))]
        xa = descend(sides[si], pc)
        xb = rng.choice([xa, descend(sides[si], pc[:-1] + [1 - pc[-1]]), descend(sides[(si + 1) % ns], [0] * len(pc))])
        ht = 2.0**-rng.randint(13, 24)
        k0, lag = rng.randint(0, 3), rng.choice([0, 1, 2, 2, 5])
        rt0, tt0 = (k0 * ht, (k0 + 1) * ht), ((k0 + lag) * ht, (k0 + lag + 1) * ht)
        for exact in (False, True):
            SL = SLs[exact]
            sw = 'exact' if exact else 'quad'
            try:
                base = SL.bilform(dummy(rt0, xb), dummy(tt0, xa))
                for delta in (1.0, 0.5, 3.0, 1.0 - 2.0**-15, rng.choice([0.75, 2.0, 0.125])):
                    if not all(Fraction(x + delta) == Fraction(x) + Fraction(delta) for x in tt0 + rt0):
                        acc.count('time_shift_inexact_skipped')
                        continue
                    v = SL.bilform(dummy((rt0[0] + delta, rt0[1] + delta), xb), dummy((tt0[0] + delta, tt0[1] + delta), xa))
                    acc.case('%s|%d|thin-late|%r|%r|%r|%s' % (curve, spec['rseed'], tt0, xa, delta, sw), None)
                    acc.seen('rel:time-shift')
                    acc.seen('rel:time-shift:thin-slab-to-late-time')
                    if v != base:
                        acc.violation('time-shift-not-bitwise:' + sw, '%s: %.17g vs %.17g after shifting both time intervals (slabs of height %r, lag %d) by %r'
                                      % (curve, v, base, ht, lag, delta), dict(wit0, test=(tt0, xa), trial=(rt0, xb), delta=delta))
            except Exception as ex:
                fr = repo_frame(ex)
                if fr is None:
                    raise
                acc.violation('bilform-raised:%s:%s' % (fr[0], type(ex).__name__), '%s: raised %s at %s:%d' % (curve, type(ex).__name__, fr[1], fr[2]),
                              dict(wit0, test=(tt0, xa), trial=(rt0, xb)))
    acc.sample({'curve': curve, 'n_elements': n, 'pairs': len(pairs), 'sides': sides}, curve)
