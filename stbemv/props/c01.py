"""C01 - single-layer Galerkin entries equal the 4-fold heat-kernel integral."""
import random

ID = 'C01'
TITLE = 'Galerkin entries vs independent reference integral (1e-7 of the diagonal scale)'
LEVEL = 'exploration'
RULE = ('a monitor on SingleLayerOperator.bilform records every (test, trial, value, switch) while (i) the serial '
        'bilform_matrix runs on random aspect-bounded meshes (h_x^2/h_t <= 32) of the five shipped curves (default and '
        'custom tensor initial meshes, incl. space grids graded geometrically towards a break point), (ii) the leaf x quarter and quarter x quarter pairs of the h-h/2 and hierarchical '
        'estimators (built with the real DummyElement.uniform_refinement) are evaluated, both values of the exact-on-straight-'
        'panels switch; direct calls of spacetime_integrated_kernel with synthetic interval pairs (incl. partial overlap) are a '
        'further class. Every event is classified from geometry (curve, space relation, time relation, switch); a stratified, '
        'risk-weighted sample (all events of rare classes, preferring large size ratios and small gaps) is compared with the '
        'reference integral (analytic double time integral through F, F\'\'=-G; iterated graded Gauss-Legendre in space on our '
        'own curve geometry; two resolutions). Tolerance 1e-7*sqrt(D_test*D_trial) with reference diagonals. All recorded '
        'values must be finite. distinct = distinct (curve, mesh, pair, switch) reference-checked events')
ASSUMPTIONS = [
    'reference = stbemv/oracles/refint.py; a case whose two reference resolutions differ by more than 1e-9 in the metric is '
    'inconclusive (counted), never a violation',
    'pairs with an element of aspect h_x^2/h_t > 32 are out of scope (counted)',
    'the partial-overlap class cannot occur between leaves/children of one mesh and is driven by synthetic elements',
]
_SP = ['identical', 'nested-shared-end', 'nested-interior', 'touch-same-piece', 'touch-corner', 'touch-seam',
       'disjoint-same-piece', 'disjoint-other-piece', 'disjoint-nearer-through-seam']
REQUIRED = {t: ['space:' + s for s in _SP] + ['space:partial-overlap', 'time:equal', 'time:overlap', 'time:touch', 'time:separated',
                'switch:quad', 'switch:exact', 'source:matrix', 'source:estimator-pairs', 'source:closed-form-direct', 'scale:tiny', 'mesh:graded-initial-grid',
                'curve:UnitSquare', 'curve:PiSquare', 'curve:LShape', 'curve:Circle', 'curve:UnitInterval']
            for t in ('quick', 'thorough')}
TIMEOUT = {'quick': 1500, 'thorough': 7200}
CURVES = ['UnitSquare', 'PiSquare', 'LShape', 'Circle', 'UnitInterval']
TOL = 1e-7
REF_TOL = 1e-9


def plan(tier, seed):
    specs = []
    n_mesh = 3 if tier == 'quick' else 10
    for c in CURVES:
        for k in range(n_mesh):
            specs.append({'name': 'mesh-%s-%d' % (c, k), 'mode': 'mesh', 'curve': c, 'rseed': seed * 613 + k,
                          'n_ops': (24 if tier == 'quick' else 50) + 6 * k, 'custom': k % 3 == 2,
                          'per_cell': 2 if tier == 'quick' else 8, 'cap': 90 if tier == 'quick' else 500})
    for c in CURVES:
        # initial space grids graded towards a break point: near, non-touching roots with length ratios 4..32 without any refinement
        for k in range(1 if tier == 'quick' else 5):
            specs.append({'name': 'graded-%s-%d' % (c, k), 'mode': 'mesh', 'curve': c, 'rseed': seed * 617 + 50 + k,
                          'n_ops': 3 + 5 * k, 'custom': 'graded', 'per_cell': 3 if tier == 'quick' else 8, 'cap': 70 if tier == 'quick' else 400})
    specs.append({'name': 'direct', 'mode': 'direct', 'rseed': seed, 'n': 120 if tier == 'quick' else 1500})
    specs.append({'name': 'direct2', 'mode': 'direct', 'rseed': seed + 77, 'n': 120 if tier == 'quick' else 1500})
    return specs


def elem_key(e):
    return (tuple(e.time_interval), tuple(e.space_interval))


def run_shard(spec, acc):
    if spec['mode'] == 'direct':
        return run_direct(spec, acc)
    import numpy as np
    from ..monitor import repo_frame
    from ..oracles import refint
    from ..workloads import slpairs
    from src.single_layer import SingleLayerOperator
    from src.hierarchical_error_estimator import DummyElement
    curve = spec['curve']
    rng = random.Random(spec['rseed'] * 7 + CURVES.index(curve))
    ls, geo = slpairs.make_mesh(curve, spec['rseed'] * 31 + CURVES.index(curve), spec['n_ops'], custom_grid=spec['custom'],
                                time_grid=[0, 1] if rng.random() < 0.6 else [0, 0.5, 1])
    mesh = ls.mesh
    elems = list(mesh.leaf_elements)
    if spec['custom'] == 'graded':
        acc.seen('mesh:graded-initial-grid')
    wit0 = {'curve': curve, 'mesh': ls.spec, 'history': ls.history}
    log = slpairs.BilformLog()
    events = []   # (source, exact, test, trial, value)
    try:
        for exact in (False, True):
            SL = SingleLayerOperator(mesh, pw_exact=exact)
            try:
                SL.bilform_matrix(elems, elems, use_mp=False)
                events += [('matrix', ) + ev for ev in log.take()]
                # estimator pairs: real quartering, leaf x quarter (hierarchical), quarter x quarter (h-h/2, 4x4 blocks)
                sub = elems if len(elems) <= 24 else rng.sample(elems, 24)
                quarters = DummyElement.uniform_refinement(sub)
                fine = [q for qs in quarters for q in qs]
                SL.bilform_matrix(fine, sub, use_mp=False)
                for qs in quarters[:8]:
                    SL.bilform_matrix(qs, qs)
                few = fine if len(fine) <= 40 else rng.sample(fine, 40)
                SL.bilform_matrix(few, few, use_mp=False)
                events += [('estimator-pairs', ) + ev for ev in log.take()]
            except Exception as ex:
                fr = repo_frame(ex)
                if fr is None:
                    raise
                acc.violation('bilform-raised:%s:%s' % (fr[0], type(ex).__name__),
                              '%s: assembling raised %s at %s:%d (pw_exact=%r)' % (curve, type(ex).__name__, fr[1], fr[2], exact), wit0)
                log.take()
    finally:
        log.close()
    if curve == 'UnitSquare' and spec['name'] == 'mesh-UnitSquare-0':
        # the recorded finding's own witness: a small element next to a corner, a 64 times longer one on the other side
        from src.mesh import Vertex
        gam = mesh.gamma_space

        def dummy(t, x):
            vs = [Vertex(t[0], x[0], -1), Vertex(t[0], x[1], -1), Vertex(t[1], x[1], -1), Vertex(t[1], x[0], -1)]
            return DummyElement(vs, gam.pw_gamma[geo.piece_of(*x)])
        h = 0.5 / 64
        tr_w, te_w = dummy((0.0, 1.0), (0.5, 1.0)), dummy((0.0, 1.0), (1.0 + h, 1.0 + 2 * h))
        events.append(('matrix', False, te_w, tr_w, SingleLayerOperator(mesh).bilform(tr_w, te_w)))
        log_dummy = True
    acc.count('bilform_events', len(events))
    # classify
    cells = {}
    n_scope_out = 0
    for src, exact, test, trial, val in events:
        tr = slpairs.time_relation(test.time_interval, trial.time_interval)
        if tr == 'acausal':
            continue
        if not np.isfinite(val):
            acc.violation('entry-not-finite', '%s: bilform returned %r' % (curve, val),
                          dict(wit0, test=elem_key(test), trial=elem_key(trial), pw_exact=exact))
            continue
        if slpairs.aspect(test) > 32 or slpairs.aspect(trial) > 32:
            n_scope_out += 1
            continue
        sr = slpairs.space_relation(geo, test.space_interval, trial.space_interval)
        cells.setdefault((sr, tr, exact, src), []).append((test, trial, val))
    acc.count('out_of_scope_aspect', n_scope_out)
    # stratified, risk-weighted sample
    rare = {'touch-seam', 'touch-corner', 'nested-shared-end', 'nested-interior', 'disjoint-nearer-through-seam'}
    chosen = []
    for cell, evs in sorted(cells.items(), key=lambda kv: repr(kv[0])):
        sr, tr, exact, src = cell
        uniq = {}
        for test, trial, val in evs:
            uniq.setdefault((elem_key(test), elem_key(trial)), (test, trial, val))
        evs = list(uniq.values())

        def risk(ev):
            test, trial, val = ev
            x0, x1 = test.space_interval
            y0, y1 = trial.space_interval
            gap = max(y0 - x1, x0 - y1, 0.0)
            return (-slpairs.size_ratio(test, trial), gap)
        evs.sort(key=risk)
        k = spec['per_cell'] * (3 if sr in rare else 1)
        take = evs[:max(1, k // 2)]
        rest = evs[max(1, k // 2):]
        rng.shuffle(rest)
        take += rest[:k - len(take)]
        chosen += [(cell, ev) for ev in take]
    # every non-empty cell gets its most risky event first; the remaining budget goes to the rare classes, then the rest
    first, later, seen_cells = [], [], set()
    for ce in chosen:
        if ce[0] not in seen_cells:
            seen_cells.add(ce[0])
            first.append(ce)
        else:
            later.append(ce)
    rng.shuffle(later)
    later.sort(key=lambda ce: 0 if ce[0][0] in rare else 1)
    chosen = (first + later)[:max(spec['cap'], len(first))]
    n_inconcl = 0
    for (sr, tr, exact, src), (test, trial, val) in chosen:
        ref, dis = refint.entry2(geo, test.time_interval, test.space_interval, trial.time_interval, trial.space_interval)
        D = (refint.diagonal(geo, test.h_t, test.h_x) * refint.diagonal(geo, trial.h_t, trial.h_x))**0.5
        cls = '%s/%s/%s' % (sr, tr, 'exact' if exact else 'quad')
        if not (dis <= REF_TOL * D):
            n_inconcl += 1
            acc.count('reference_not_converged')
            continue
        err = abs(val - ref) / D
        acc.case('%s|%d|%r|%r|%s' % (curve, spec['rseed'], elem_key(test), elem_key(trial), exact), None)
        for c in ('space:' + sr, 'time:' + tr, 'switch:' + ('exact' if exact else 'quad'), 'source:' + src, 'curve:' + curve):
            acc.seen(c)
        acc.worst_of(cls, err)
        acc.worst_of('reference-disagreement', dis / D)
        if err > TOL:
            key = 'entry-inexact:%s:%s:%s' % (sr, tr, 'exact' if exact else 'quad')
            bound = slpairs.k4_envelope(slpairs.corner_nearness(geo, test.space_interval, trial.space_interval))
            if bound is not None and err <= bound:
                key = 'entry-inexact:across-corner:near-singular'   # recorded finding K4, see known-findings.txt; larger deviations keep the class key
            acc.violation(key,
                          '%s: <V 1_trial,1_test> = %.17g, reference %.17g, error %.3e of sqrt(D_test D_trial) (test %r, trial %r, pw_exact=%r)'
                          % (curve, val, ref, err, elem_key(test), elem_key(trial), exact),
                          dict(wit0, test=elem_key(test), trial=elem_key(trial), pw_exact=exact, computed=val, reference=ref, scaled_error=err))
        acc.sample({'curve': curve, 'class': cls, 'test': elem_key(test), 'trial': elem_key(trial), 'computed': val,
                    'reference': ref, 'scaled_error': err}, cls, per_class=1)
    if chosen and n_inconcl > len(chosen) // 4:
        acc.inconclusive_because('reference integral did not converge on %d of %d sampled pairs' % (n_inconcl, len(chosen)))
    acc.extra['cells'] = {'%s/%s/%s/%s' % (a, b, 'exact' if c else 'quad', d): len(v) for (a, b, c, d), v in cells.items()}


def run_direct(spec, acc):
    """spacetime_integrated_kernel called directly (the second observation point), incl. partial overlap, and the
    quadrature path on synthetic partially overlapping elements."""
    import numpy as np
    from ..monitor import repo_frame
    from ..oracles import refint
    from ..workloads import slpairs
    from src import single_layer_exact as SE
    from src.single_layer import SingleLayerOperator
    from src.hierarchical_error_estimator import DummyElement
    from src.mesh import MeshParametrized, Vertex
    from src import parametrization as P
    rng = random.Random(spec['rseed'])
    geo = refint.Geo('UnitInterval')
    gamma = P.UnitInterval()
    mesh = MeshParametrized(gamma)
    SLq = SingleLayerOperator(mesh, pw_exact=False)
    piece = gamma.pw_gamma[0]

    def dummy(t0, t1, x0, x1):
        vs = [Vertex(t0, x0, -1), Vertex(t0, x1, -1), Vertex(t1, x1, -1), Vertex(t1, x0, -1)]
        return DummyElement(vs, piece)

    kinds = ['identical', 'touch', 'disjoint', 'nested-shared', 'nested-interior', 'partial-overlap']
    for i in range(spec['n']):
        kind = kinds[i % len(kinds)]
        h = 2.0**-rng.randint(1, 5)
        x0 = rng.randint(0, int(round((1 - h) / h)) - 0) * h if h < 1 else 0.0
        x0 = min(x0, 1 - h)
        x1 = x0 + h
        if kind == 'identical':
            y0, y1 = x0, x1
        elif kind == 'touch':
            k = 2.0**-rng.randint(1, 5)
            if x1 + k <= 1:
                y0, y1 = x1, x1 + k
            elif x0 - k >= 0:
                y0, y1 = x0 - k, x0
            else:
                continue
        elif kind == 'disjoint':
            k = 2.0**-rng.randint(2, 5)
            y0 = rng.randint(0, int(round(1 / k)) - 1) * k
            y1 = y0 + k
            if not (y0 > x1 or y1 < x0):
                continue
        elif kind == 'nested-shared':
            y0, y1 = (x0, x0 + h / 2) if rng.random() < 0.5 else (x0 + h / 2, x1)
        elif kind == 'nested-interior':
            y0, y1 = x0 + h / 4, x0 + h / 2
        else:
            y0, y1 = x0 + h / 2, x0 + 3 * h / 2
            if y1 > 1:
                continue
        if rng.random() < 0.5:
            (x0, x1), (y0, y1) = (y0, y1), (x0, x1)
        ht = 2.0**-rng.randint(0, 4)
        a = rng.randint(0, int(round(1 / ht)) - 1) * ht
        b = a + ht
        tk = rng.choice(['equal', 'touch', 'separated', 'overlap'])
        hs = ht if tk == 'equal' else 2.0**-rng.randint(0, 4)
        if tk == 'equal':
            c, d = a, b
        elif tk == 'touch':
            c, d = a - hs, a
        elif tk == 'separated':
            c, d = a - 2 * hs, a - hs
        else:
            c, d = (a, a + ht / 2) if rng.random() < 0.5 else (a - hs / 2, a + hs / 2)
        if c < 0:
            continue
        # scope: aspect of both rectangles
        if (x1 - x0)**2 / (b - a) > 32 or (y1 - y0)**2 / (d - c) > 32:
            continue
        sr = slpairs.space_relation(geo, (x0, x1), (y0, y1))
        tr = slpairs.time_relation((a, b), (c, d))
        if tr == 'acausal':
            continue
        wit = {'test_t': [a, b], 'trial_t': [c, d], 'test_x': [x0, x1], 'trial_x': [y0, y1]}
        ref, dis = refint.entry2(geo, (a, b), (x0, x1), (c, d), (y0, y1))
        D = (refint.diagonal(geo, b - a, x1 - x0) * refint.diagonal(geo, d - c, y1 - y0))**0.5
        if not (dis <= REF_TOL * D):
            acc.count('reference_not_converged')
            continue
        vals = []
        try:
            vals.append(('closed-form-direct', SE.spacetime_integrated_kernel(a, b, c, d, x0, x1, y0, y1)))
            if sr == 'partial-overlap' or i % 3 == 0:
                vals.append(('quadrature-synthetic', SLq.bilform(dummy(c, d, y0, y1), dummy(a, b, x0, x1))))
        except Exception as ex:
            fr = repo_frame(ex)
            if fr is None:
                raise
            acc.violation('direct-raised:%s:%s' % (fr[0], type(ex).__name__), 'raised %s at %s:%d' % (type(ex).__name__, fr[1], fr[2]), wit)
            continue
        for src, val in vals:
            err = abs(val - ref) / D if np.isfinite(val) else float('inf')
            acc.case('direct|%r|%s' % (sorted(wit.items()), src), None)
            acc.seen('space:' + sr)
            acc.seen('time:' + tr)
            acc.seen('source:closed-form-direct')
            acc.worst_of('direct:%s/%s/%s' % (src, sr, tr), err)
            if not (err <= TOL):
                acc.violation('entry-inexact:%s:%s:%s' % (sr, tr, src), '%s = %.17g, reference %.17g, scaled error %.3e' % (src, val, ref, err),
                              dict(wit, source=src, computed=val, reference=ref))
    # ---- very small elements (space level 10-16 on a unit side): relative positions as above, on closed curves, next to the
    #      corner and the seam as well; exercises absolute tolerances hidden in comparisons (isclose-style slips)
    for cname in ('UnitSquare', 'Circle'):
        g2 = refint.Geo(cname)
        gam2 = getattr(P, cname)()
        SL2 = {False: SingleLayerOperator(MeshParametrized(gam2), pw_exact=False), True: SingleLayerOperator(MeshParametrized(gam2), pw_exact=True)}

        def dummy2(t0, t1, x0, x1):
            vs = [Vertex(t0, x0, -1), Vertex(t0, x1, -1), Vertex(t1, x1, -1), Vertex(t1, x0, -1)]
            return DummyElement(vs, gam2.pw_gamma[g2.piece_of(x0, x1)])
        L2 = g2.length
        side = g2.starts[1] if not g2.circle else L2 / 4
        for i in range(max(6, spec['n'] // 12)):
            k = rng.randint(10, 16)
            h = side * 2.0**-k
            kind = ['identical', 'touch', 'corner', 'seam', 'disjoint', 'nested'][i % 6]
            base = rng.choice([side * 0.5, side * 0.25, 0.0]) if kind not in ('corner', 'seam') else 0.0
            if kind == 'identical':
                X, Y = (base, base + h), (base, base + h)
            elif kind == 'touch':
                X, Y = (base, base + h), (base + h, base + h + h * rng.choice([1, 2, 0.5]))
            elif kind == 'corner':
                X, Y = (side - h, side), (side, side + h * rng.choice([1, 2]))
            elif kind == 'seam':
                X, Y = (0.0, h), (L2 - h * rng.choice([1, 2]), L2)
            elif kind == 'disjoint':
                X, Y = (base, base + h), (base + 3 * h, base + 4 * h)
            else:
                X, Y = (base, base + 2 * h), (base + h, base + 2 * h)
            if rng.random() < 0.5:
                X, Y = Y, X
            ht = max(h * h / rng.choice([32, 8, 1]), 2.0**-40)
            a = rng.choice([0.0, ht, 0.5])
            tt = (a, a + ht)
            rt = tt if rng.random() < 0.6 else (max(a - ht, 0.0), a) if a > 0 else tt
            if slpairs.time_relation(tt, rt) == 'acausal':
                continue
            wit = {'curve': cname, 'test_t': tt, 'trial_t': rt, 'test_x': X, 'trial_x': Y, 'scale': 'tiny'}
            ref, dis = refint.entry2(g2, tt, X, rt, Y)
            D = (refint.diagonal(g2, tt[1] - tt[0], X[1] - X[0]) * refint.diagonal(g2, rt[1] - rt[0], Y[1] - Y[0]))**0.5
            if not (dis <= REF_TOL * D):
                acc.count('reference_not_converged')
                continue
            for exact in (False, True):
                try:
                    val = SL2[exact].bilform(dummy2(rt[0], rt[1], Y[0], Y[1]), dummy2(tt[0], tt[1], X[0], X[1]))
                except Exception as ex:
                    fr = repo_frame(ex)
                    if fr is None:
                        raise
                    acc.violation('bilform-raised:%s:%s' % (fr[0], type(ex).__name__), 'tiny elements: raised %s at %s:%d' % (type(ex).__name__, fr[1], fr[2]), wit)
                    continue
                err = abs(val - ref) / D if np.isfinite(val) else float('inf')
                acc.case('tiny|%s|%r|%s' % (cname, sorted(wit.items()), exact), None)
                acc.seen('scale:tiny')
                acc.worst_of('tiny-scale:%s' % kind, err)
                if not (err <= TOL):
                    acc.violation('entry-inexact:tiny-scale:%s:%s' % (kind, 'exact' if exact else 'quad'),
                                  '%s: tiny elements (h_x=%.3g): %.17g vs reference %.17g, scaled error %.3e' % (cname, h, val, ref, err), dict(wit, pw_exact=exact))
    acc.sample({'mode': 'direct', 'n': spec['n'], 'kinds': kinds}, 'direct')


def finalize(m, tier):
    cells = {}
    for e in m['extra']:
        for k, v in e.get('cells', {}).items():
            cells[k] = cells.get(k, 0) + v
    return {'recorded_events_per_cell': dict(sorted(cells.items())),
            'bilform_events_recorded': int(m['counters'].get('bilform_events', 0))}
