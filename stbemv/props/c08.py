"""C08 - initial-potential load vector equals the integral of the exact initial potential."""
import math
import random

ID = 'C08'
TITLE = 'InitialOperator.linform vs integral of the exact initial potential; linearity, additivity, direct reference, evaluate'
LEVEL = 'exploration'
RULE = ('the real InitialOperator.linform (with the real boundary-refined domain meshes) is called for boundary elements whose space '
        'interval is a dyadic sub-interval of a unit piece of a side of the unit square, pi square and L-shape (all levels up to the tier '
        'bound on every piece) and time intervals incl. those starting at 0, aspect <= 32. Oracles: (1) u0=1 and the sine product against '
        'our own exact potentials (products of error-function differences over the rectangles of the domain; separable 1-D Gaussian '
        'convolution of the sine by graded Gauss-Legendre) integrated over the element with grading towards t=0 and the corners, 1e-5 '
        'relative; (2) linearity in u0 and additivity under time/space splitting (1e-6), and an independent reference of the triple '
        'integral over element x domain (time integrated analytically, graded tensor rule towards the boundary point) for u0 in {x, '
        'sin(x) y, random quadratics} (1e-6); (3) evaluate(t, x) against the exact potential for t >= 0.05*side^2 (1e-5). '
        'distinct = distinct (domain, element, datum / relation)')
RULE += ' ' + '(2b) linform_vector: entry i is the load of element i for reordered lists, warm cache, and a history of six DIFFERENT pooled calls (use_mp=True; other lists, another operator, longer list, cached operator) in one process, bit for bit.'
ASSUMPTIONS = [
    'exact potentials are derived here (not taken from problems.py): u0=1 on a union of rectangles, sin product on the (pi/unit) square',
    'elements are built like the estimators build them (DummyElement on the real piece parametrisation) and as leaves of real refined meshes',
    'references carry two resolutions; unconverged cases are counted as inconclusive cases',
]
REQUIRED = {t: ['domain:UnitSquare', 'domain:PiSquare', 'domain:LShape', 'datum:one', 'datum:sine', 'time:starts-at-0', 'time:later', 'time:early-small', 'time:deep-near-zero',
                'level>=4', 'rel:linearity', 'rel:additivity-time', 'rel:additivity-space', 'rel:direct-reference', 'fn:evaluate', 'fn:linform_vector', 'fn:linform_vector:pool-history', 'fn:linform_vector:corner-sharing-history',
                'piece:long-side-half']
            for t in ('quick', 'thorough')}
TIMEOUT = {'quick': 1500, 'thorough': 7200}
DOMAINS = ['UnitSquare', 'PiSquare', 'LShape']
RECTS = {
    'UnitSquare': [(0, 1, 0, 1)],
    'PiSquare': [(0, math.pi, 0, math.pi)],
    'LShape': [(-1, 0, 0, 1), (0, 1, 0, 1), (0, 1, -1, 0)],
}


def plan(tier, seed):
    specs = []
    K = 5 if tier == 'quick' else 14
    for d in DOMAINS:
        for k in range(K):
            specs.append({'name': 'exact-%s-%d' % (d, k), 'mode': 'exact', 'domain': d, 'k': k, 'K': K, 'lmax': 5 if tier == 'quick' else 7,
                          'rseed': seed * 211 + k, 'per_shard': 26 if tier == 'quick' else 120})
        specs.append({'name': 'rel-%s' % d, 'mode': 'rel', 'domain': d, 'rseed': seed * 223, 'n': 6 if tier == 'quick' else 30})
    return specs


# --------------------------------------------------------------------------- exact potentials (our own)
def pot_one(domain):
    import numpy as np
    from scipy.special import erf

    def M(t, X):
        x, y = X[0], X[1]
        s = 2.0 * np.sqrt(t)
        out = 0.0
        for a1, b1, a2, b2 in RECTS[domain]:
            out = out + 0.25 * (erf((b1 - x) / s) - erf((a1 - x) / s)) * (erf((b2 - y) / s) - erf((a2 - y) / s))
        return out
    return M


def conv_sine(t, x, k, length, n=24):
    """int_0^length (4 pi t)^(-1/2) exp(-(x-y)^2/4t) sin(k y) dy for arrays t, x (same shape), by the substitution
    y = x + 2 sqrt(t) s and composite Gauss-Legendre on the clipped s-range."""
    import numpy as np
    from ..oracles.refint import gl
    t = np.asarray(t, dtype=float)
    x = np.asarray(x, dtype=float)
    rt = 2.0 * np.sqrt(t)
    lo = np.maximum((0.0 - x) / rt, -9.0)
    hi = np.minimum((length - x) / rt, 9.0)
    gx, gw = gl(n)
    out = np.zeros(np.broadcast(t, x).shape)
    P = 6
    for p in range(P):
        a = lo + (hi - lo) * p / P
        b = lo + (hi - lo) * (p + 1) / P
        for g, w in zip(gx, gw):
            s = a + (b - a) * g
            out = out + (b - a) * w * np.exp(-s * s) * np.sin(k * (x + rt * s))
    return out / math.sqrt(math.pi)


def pot_sine(domain):
    k, length = (math.pi, 1.0) if domain == 'UnitSquare' else (1.0, math.pi)

    def M(t, X):
        return conv_sine(t, X[0], k, length) * conv_sine(t, X[1], k, length)
    return M


def element_integral(geo, M, time_iv, space_iv, n=10, depth=10):
    """int over the boundary element of M(t, gamma(x_hat)); graded towards t_a, towards the ends of the side and of the element."""
    import numpy as np
    from ..oracles.refint import graded
    pc = geo.piece_of(*space_iv)
    tt, tw = graded(time_iv[0], time_iv[1], [time_iv[0]], n, depth, ratio=0.2, floor_rel=1e-14)
    sing_x = [space_iv[0], space_iv[1]]
    xx, xw = graded(space_iv[0], space_iv[1], sing_x, n, depth, ratio=0.2, floor_rel=1e-13)
    T = np.repeat(tt, len(xx))
    Xh = np.tile(xx, len(tt))
    W = np.repeat(tw, len(xx)) * np.tile(xw, len(tt))
    P = geo.point(pc, Xh)
    return float(np.sum(W * M(T, P)))


def direct_reference(geo, domain, u0, time_iv, space_iv, n=8, depth=7):
    """int_elem int_Omega G(t, gamma(x)-y) u0(y) dy dx dt with the time integral taken analytically."""
    import numpy as np
    from scipy.special import exp1
    from ..oracles.refint import graded
    a, b = time_iv
    pc = geo.piece_of(*space_iv)
    ox, ow = graded(space_iv[0], space_iv[1], [space_iv[0], space_iv[1]], n, 4, ratio=0.2)
    total = 0.0
    for x, wx in zip(ox, ow):
        P = geo.point(pc, np.array([x]))
        px, py = float(P[0, 0]), float(P[1, 0])
        for r1a, r1b, r2a, r2b in RECTS[domain]:
            y1, w1 = graded(r1a, r1b, [r1a, r1b, px] if r1a <= px <= r1b else [min((r1a, r1b), key=lambda v: abs(v - px))], n, depth)
            y2, w2 = graded(r2a, r2b, [r2a, r2b, py] if r2a <= py <= r2b else [min((r2a, r2b), key=lambda v: abs(v - py))], n, depth)
            Y1 = np.repeat(y1, len(y2))
            Y2 = np.tile(y2, len(y1))
            W = np.repeat(w1, len(y2)) * np.tile(w2, len(y1))
            r = np.maximum((px - Y1)**2 + (py - Y2)**2, 1e-300)
            K = exp1(r / (4 * b))
            if a > 0:
                K = K - exp1(r / (4 * a))
            total += wx * float(np.sum(W * K * u0(np.array([Y1, Y2])))) / (4 * math.pi)
    return total


# ---------------------------------------------------------------------------
def make_setup(domain):
    from ..oracles.refint import Geo
    from src import initial_mesh as IM
    from src import parametrization as P
    from src.mesh import MeshParametrized
    geo = Geo(domain)
    gamma = getattr(P, domain)()
    bmesh = MeshParametrized(gamma)
    if domain == 'LShape':
        for e in list(bmesh.leaf_elements):
            if e.h_x > 1:
                bmesh.refine_space(e)
    factory = getattr(IM, domain + 'BoundaryRefined')
    return geo, gamma, bmesh, factory


def dummy(gamma, geo, tiv, xiv):
    from src.hierarchical_error_estimator import DummyElement
    from src.mesh import Vertex
    p = geo.piece_of(*xiv)
    vs = [Vertex(tiv[0], xiv[0], -1), Vertex(tiv[0], xiv[1], -1), Vertex(tiv[1], xiv[1], -1), Vertex(tiv[1], xiv[0], -1)]
    return DummyElement(vs, gamma.pw_gamma[p])


def run_exact(spec, acc):
    import numpy as np
    from ..monitor import repo_frame
    from src.initial_potential import InitialOperator
    domain = spec['domain']
    rng = random.Random(spec['rseed'] * 61 + DOMAINS.index(domain))
    geo, gamma, bmesh, factory = make_setup(domain)
    acc.seen('domain:' + domain)
    # all dyadic sub-intervals of every unit piece, by real bisection
    segs = []
    frontier = [(e, 0, i) for i, e in enumerate(list(bmesh.leaf_elements))]
    while frontier:
        nxt = []
        for e, l, piece in frontier:
            segs.append((piece, l, e.space_interval))
            if l < spec['lmax']:
                c1, c2 = bmesh.refine_space(e) if not e.children else e.children
                nxt += [(c1, l + 1, piece), (c2, l + 1, piece)]
        frontier = nxt
    mine = [s for j, s in enumerate(segs) if j % spec['K'] == spec['k']]
    rng.shuffle(mine)
    # make sure deep levels are represented in every shard
    mine.sort(key=lambda s: -s[1] if rng.random() < 0.3 else rng.random() * 10)
    mine = mine[:spec['per_shard']]
    u_one = lambda xy: np.ones(np.shape(xy[0])) if np.ndim(xy[0]) else 1.0
    data = [('one', u_one, pot_one(domain))]
    if domain == 'UnitSquare':
        data.append(('sine', lambda xy: np.sin(np.pi * xy[0]) * np.sin(np.pi * xy[1]), pot_sine(domain)))
    elif domain == 'PiSquare':
        data.append(('sine', lambda xy: np.sin(xy[0]) * np.sin(xy[1]), pot_sine(domain)))
    n_unconv = 0
    fixed_times = {}
    if domain == 'LShape' and spec['k'] == 0:
        # the recorded finding's own witness (re-entrant corner, aspect 32), so that it is re-observed on every run
        for seg in segs:
            if seg[2] == (7.875, 8.0):
                mine.insert(0, seg)
                fixed_times[id(seg)] = (2.0**-11, 2.0**-10)
                break
    # very fine elements close to t = 0 (space level 11-13, time level 24-28): reached by meshes graded hard towards the initial time
    pieces0 = [sg for sg in segs if sg[1] == 0]
    for _ in range(3 if spec['lmax'] <= 5 else 10):
        piece0, _, base = pieces0[rng.randrange(len(pieces0))]
        a_, b_ = base
        lv = rng.randint(11, 13)
        for _bit in range(lv):
            m_ = (a_ + b_) / 2
            a_, b_ = (a_, m_) if rng.random() < 0.5 else (m_, b_)
        deep = (piece0, lv, (a_, b_))
        mine.append(deep)
        hxd = b_ - a_
        jmin = int(math.ceil(-math.log2(32 / (hxd * hxd)))) if hxd * hxd / 32 < 1 else 0
        j = rng.randint(max(24, -jmin if False else 24), 28)
        htd = 2.0**-j
        if hxd * hxd / htd > 32:
            htd = hxd * hxd / 32
        kk = rng.choice([0, 1, 1, 2, 3])
        fixed_times[id(deep)] = (kk * htd, (kk + 1) * htd)
        acc.seen('time:deep-near-zero')
    for seg in mine:
        piece, l, xiv = seg
        hx = xiv[1] - xiv[0]
        # time interval with aspect <= 32
        kt_min = max(0, int(math.ceil(math.log2(max(hx * hx / 32, 1e-12)) * -1)) if hx * hx / 32 < 1 else 0)
        ht = 2.0**-rng.randint(0, min(12, max(0, int(math.floor(math.log2(32 / (hx * hx)))))))
        if hx * hx / ht > 32:
            ht = 1.0
        u = rng.random()
        if u < 0.4:
            t0 = 0.0
        elif u < 0.65:
            # early slabs: the shortest admissible time step, starting right after t = 0
            ht = 2.0**-min(14, max(0, int(math.floor(math.log2(32 / (hx * hx))))))
            t0 = ht * rng.choice([1, 1, 2, 3])
            acc.seen('time:early-small')
        else:
            t0 = rng.randrange(max(1, int(round(1 / ht)))) * ht
        tiv = (t0, t0 + ht)
        if id(seg) in fixed_times:
            tiv = fixed_times[id(seg)]
            t0, ht = tiv[0], tiv[1] - tiv[0]
        el = dummy(gamma, geo, tiv, xiv)
        for name, u0, M in data:
            if name == 'sine' and rng.random() < 0.4:
                continue
            w = {'domain': domain, 'piece': piece, 'level': l, 'time': tiv, 'space': xiv, 'datum': name}
            try:
                op = InitialOperator(bmesh, u0, initial_mesh=factory)
                val, ips = op.linform(el)
            except Exception as ex:
                fr = repo_frame(ex)
                if fr is None:
                    raise
                acc.violation('linform-raised:%s:%s' % (fr[0], type(ex).__name__), '%s: linform raised %s at %s:%d' % (domain, type(ex).__name__, fr[1], fr[2]), w)
                continue
            r1 = element_integral(geo, M, tiv, xiv, n=8, depth=8)
            r2 = element_integral(geo, M, tiv, xiv, n=12, depth=12)
            if abs(r1 - r2) > 1e-7 * abs(r2):
                n_unconv += 1
                acc.count('reference_not_converged')
                continue
            err = abs(val - r2) / abs(r2)
            acc.case('%s|%d|%d|%r|%r|%s' % (domain, piece, l, tiv, xiv, name), None)
            acc.seen('datum:' + name)
            acc.seen('time:starts-at-0' if t0 == 0 else 'time:later')
            if l >= 4:
                acc.seen('level>=4')
            if domain == 'LShape' and piece in (2, 3, 4, 5):
                acc.seen('piece:long-side-half')
            elif domain != 'LShape':
                acc.seen('piece:long-side-half', 0)
            acc.worst_of('linform vs exact potential (%s, %s)' % (domain, name), err)
            if not (err <= 1e-5) or not np.isfinite(val):
                # mechanism key: where the element sits and how stretched it is (the re-entrant corner of the L-shape with
                # aspect in (16, 32] is a recorded finding, see known-findings.txt)
                where = 'reentrant-corner' if (domain == 'LShape' and (xiv[0] == 0 or xiv[1] == geo.length)) else 'elsewhere'
                asp = 'aspect>16' if hx * hx / ht > 16 else 'aspect<=16'
                acc.violation('load-inexact:%s:%s:%s:%s' % (domain, name, where, asp), '%s: <M0 u0, 1_elem> = %.15g, integral of the exact potential %.15g (rel %.2e); elem t=%r x=%r'
                              % (domain, val, r2, err, tiv, xiv), dict(w, computed=float(val), reference=r2))
            acc.sample(dict(w, computed=float(val), reference=r2), domain + name, per_class=1)
    if mine and n_unconv > len(mine) // 3:
        acc.inconclusive_because('exact-potential reference did not converge on %d cases' % n_unconv)
    if domain != 'LShape':
        acc.seen('piece:long-side-half')


def run_rel(spec, acc):
    import numpy as np
    from ..monitor import repo_frame
    from src.initial_potential import InitialOperator
    domain = spec['domain']
    rng = random.Random(spec['rseed'] * 67 + DOMAINS.index(domain))
    geo, gamma, bmesh, factory = make_setup(domain)
    acc.seen('domain:' + domain)
    pieces = [(e.space_interval) for e in bmesh.leaf_elements]
    side = 1.0 if domain != 'PiSquare' else math.pi
    quad = [rng.uniform(-1, 1) for _ in range(6)]
    fams = {
        'x': lambda xy: xy[0] + 0 * xy[1],
        'sinxy': lambda xy: np.sin(xy[0]) * xy[1],
        'quad': lambda xy: quad[0] + quad[1] * xy[0] + quad[2] * xy[1] + quad[3] * xy[0] * xy[1] + quad[4] * xy[0]**2 + quad[5] * xy[1]**2,
    }
    for case in range(spec['n']):
        base = pieces[rng.randrange(len(pieces))]
        l = rng.randint(0, 4)
        k = rng.randrange(2**l)
        h = (base[1] - base[0]) / 2**l
        xiv = (base[0] + k * h, base[0] + (k + 1) * h)
        # reproduce the float midpoints of real bisection
        a, b = base
        for bit in [(k >> (l - 1 - q)) & 1 for q in range(l)]:
            m = (a + b) / 2
            a, b = (a, m) if bit == 0 else (m, b)
        xiv = (a, b)
        hx = b - a
        ht = 2.0**-rng.randint(0, min(8, max(0, int(math.floor(math.log2(32 / (hx * hx)))))))
        t0 = 0.0 if rng.random() < 0.5 else rng.randrange(max(1, int(round(1 / ht)))) * ht
        tiv = (t0, t0 + ht)
        el = dummy(gamma, geo, tiv, xiv)
        w = {'domain': domain, 'time': tiv, 'space': xiv}
        try:
            vals = {nm: InitialOperator(bmesh, f, initial_mesh=factory).linform(el)[0] for nm, f in fams.items()}
            al, be = rng.uniform(-2, 2), rng.uniform(-2, 2)
            comb = InitialOperator(bmesh, lambda xy: al * fams['x'](xy) + be * fams['sinxy'](xy), initial_mesh=factory).linform(el)[0]
            acc.case('%s|lin|%r|%r' % (domain, tiv, xiv), None)
            acc.seen('rel:linearity')
            scale = abs(al * vals['x']) + abs(be * vals['sinxy'])
            if abs(comb - (al * vals['x'] + be * vals['sinxy'])) > 1e-6 * scale:
                acc.violation('load-not-linear', '%s: linform(a u1 + b u2) = %r, a linform(u1) + b linform(u2) = %r' %
                              (domain, comb, al * vals['x'] + be * vals['sinxy']), w)
            # additivity under splitting
            opq = InitialOperator(bmesh, fams['quad'], initial_mesh=factory)
            whole = vals['quad']
            tm = (tiv[0] + tiv[1]) / 2
            xm = (xiv[0] + xiv[1]) / 2
            if hx * hx / (ht / 2) <= 32:
                s = opq.linform(dummy(gamma, geo, (tiv[0], tm), xiv))[0] + opq.linform(dummy(gamma, geo, (tm, tiv[1]), xiv))[0]
                acc.case('%s|addt|%r|%r' % (domain, tiv, xiv), None)
                acc.seen('rel:additivity-time')
                acc.worst_of('additivity (time) rel', abs(s - whole) / abs(whole))
                if abs(s - whole) > 1e-6 * abs(whole):
                    acc.violation('load-not-additive:time', '%s: whole %r, two time halves %r' % (domain, whole, s), w)
            s = opq.linform(dummy(gamma, geo, tiv, (xiv[0], xm)))[0] + opq.linform(dummy(gamma, geo, tiv, (xm, xiv[1])))[0]
            acc.case('%s|addx|%r|%r' % (domain, tiv, xiv), None)
            acc.seen('rel:additivity-space')
            acc.worst_of('additivity (space) rel', abs(s - whole) / abs(whole))
            if abs(s - whole) > 1e-6 * abs(whole):
                acc.violation('load-not-additive:space', '%s: whole %r, two space halves %r' % (domain, whole, s), w)
            # independent direct reference
            nm = ['x', 'sinxy', 'quad'][case % 3]
            r1 = direct_reference(geo, domain, fams[nm], tiv, xiv, n=6, depth=6)
            r2 = direct_reference(geo, domain, fams[nm], tiv, xiv, n=8, depth=8)
            if abs(r1 - r2) <= 2e-8 * abs(r2):
                acc.case('%s|direct|%r|%r|%s' % (domain, tiv, xiv, nm), None)
                acc.seen('rel:direct-reference')
                err = abs(vals[nm] - r2) / abs(r2)
                acc.worst_of('linform vs direct reference', err)
                if err > 1e-6:
                    acc.violation('load-differs-from-direct-reference:' + nm, '%s: linform %r, reference %r (rel %.2e)' % (domain, vals[nm], r2, err), dict(w, datum=nm))
            else:
                acc.count('direct_reference_not_converged')
        except Exception as ex:
            fr = repo_frame(ex)
            if fr is None:
                raise
            acc.violation('linform-raised:%s:%s' % (fr[0], type(ex).__name__), '%s: raised %s at %s:%d' % (domain, type(ex).__name__, fr[1], fr[2]), w)
    # (2b) the vector of loads: entry i is the load of element i, whatever the order of the list, the path or the cache state
    import shutil
    import tempfile
    from .. import env
    cdir = tempfile.mkdtemp(prefix='c08-cache-', dir=env.scratch_root())
    try:
        leaves = [e for e in bmesh.leaf_elements][:6]
        opv = InitialOperator(bmesh, fams['quad'], initial_mesh=factory, cache_dir=cdir)
        single = {id(e): InitialOperator(bmesh, fams['quad'], initial_mesh=factory).linform(e)[0] for e in leaves}
        for oname, order in (('creation', leaves), ('reversed', list(reversed(leaves))), ('creation-again', leaves), ('rotated', leaves[2:] + leaves[:2])):
            vec = opv.linform_vector(order, use_mp=False)
            acc.case('%s|vector|%s' % (domain, oname), None)
            acc.seen('fn:linform_vector')
            if len(vec) != len(order) or any(float(v) != single[id(e)] for v, e in zip(vec, order)):
                acc.violation('load-vector-entry-mismatch', '%s: linform_vector on the %s list does not return the load of element i at position i' % (domain, oname),
                              {'domain': domain, 'order': oname})
        # one operator, successive calls with DIFFERENT elements that share their lower-left corner (an element, its first children,
        # an anisotropic alternative, the element again): whatever the operator remembers between calls must not be keyed by less than the element
        b0 = leaves[rng.randrange(len(leaves))]
        (ta, tb), (xa, xb) = b0.time_interval, b0.space_interval
        tm_, xm_ = (ta + tb) / 2, (xa + xb) / 2
        seq = [('element', (ta, tb), (xa, xb)), ('first-time-half', (ta, tm_), (xa, xb)), ('first-space-half', (ta, tb), (xa, xm_)),
               ('first-quarter', (ta, tm_), (xa, xm_)), ('element-again', (ta, tb), (xa, xb)), ('first-eighth', (ta, (ta + tm_) / 2), (xa, xm_))]
        op_h = InitialOperator(bmesh, fams['quad'], initial_mesh=factory)
        for sname, tiv_, xiv_ in seq:
            el_ = dummy(gamma, geo, tiv_, xiv_)
            want_ = InitialOperator(bmesh, fams['quad'], initial_mesh=factory).linform(dummy(gamma, geo, tiv_, xiv_))[0]
            got_ = op_h.linform_vector([el_], use_mp=False)
            acc.case('%s|vector-corner-history|%s' % (domain, sname), None)
            acc.seen('fn:linform_vector:corner-sharing-history')
            if len(got_) != 1 or float(got_[0]) != want_:
                acc.violation('load-vector-entry-mismatch:corner-sharing-history:' + sname,
                              '%s: linform_vector on one operator, call "%s" of a sequence of elements sharing the corner (%r, %r): %r, single call on a fresh operator %r'
                              % (domain, sname, ta, xa, float(got_[0]) if len(got_) else None, want_), {'domain': domain, 'call': sname, 'sequence': [q[0] for q in seq]})
        # the pool path, as a history of DIFFERENT calls in one process: other lists, another operator (other datum), shorter and longer
        # lists, with and without a cache directory; every entry bit-identical to the single-element call
        import multiprocessing
        real_cpu = multiprocessing.cpu_count
        multiprocessing.cpu_count = lambda: 3
        try:
            single_x = {id(e): InitialOperator(bmesh, fams['x'], initial_mesh=factory).linform(e)[0] for e in leaves}
            op_q = InitialOperator(bmesh, fams['quad'], initial_mesh=factory)
            op_x = InitialOperator(bmesh, fams['x'], initial_mesh=factory)
            op_xc = InitialOperator(bmesh, fams['x'], initial_mesh=factory, cache_dir=cdir)
            hist = [('first', op_q, leaves[:4], single), ('other-list', op_q, leaves[2:6], single), ('other-operator', op_x, leaves[1:5], single_x),
                    ('longer-list', op_q, list(reversed(leaves)), single), ('cached-operator', op_xc, leaves[3:] + leaves[:1], single_x),
                    ('first-again', op_q, leaves[:4], single)]
            for hname, op_h, lst, ref_h in hist:
                vec = op_h.linform_vector(lst, use_mp=True)
                acc.case('%s|vector-pool|%s' % (domain, hname), None)
                acc.seen('fn:linform_vector:pool-history')
                if len(vec) != len(lst) or any(float(v) != ref_h[id(e)] for v, e in zip(vec, lst)):
                    acc.violation('load-vector-entry-mismatch:pool:' + hname,
                                  '%s: linform_vector(use_mp=True), call "%s" of a history of different calls in one process, does not return the load of '
                                  'element i at position i' % (domain, hname), {'domain': domain, 'call': hname, 'history': [h[0] for h in hist]})
        finally:
            multiprocessing.cpu_count = real_cpu
    except Exception as ex:
        fr = repo_frame(ex)
        if fr is None:
            raise
        acc.violation('linform-vector-raised:%s' % type(ex).__name__, '%s: raised at %s:%d' % (domain, fr[1], fr[2]), {'domain': domain})
    finally:
        shutil.rmtree(cdir, ignore_errors=True)
    # (3) pointwise evaluate vs exact potential, t >= 0.05 side^2
    data = [('one', (lambda xy: np.ones(xy.shape[1])), pot_one(domain))]
    if domain != 'LShape':
        kk = math.pi if domain == 'UnitSquare' else 1.0
        data.append(('sine', (lambda xy: np.sin(kk * xy[0]) * np.sin(kk * xy[1])), pot_sine(domain)))
    for nm, u0, M in data:
        op = InitialOperator(bmesh, u0)
        for _ in range(12):
            t = side * side * rng.choice([0.05, 0.06, 0.1, 0.3, 1.0, 2.0])
            if rng.random() < 0.5:
                e = rng.choice(list(bmesh.leaf_elements))
                xh = rng.uniform(*e.space_interval)
                X = np.asarray(e.gamma_space(xh), dtype=float).reshape(2, 1)
            else:
                r = RECTS[domain][rng.randrange(len(RECTS[domain]))]
                X = np.array([[rng.uniform(r[0], r[1])], [rng.uniform(r[2], r[3])]])
            w = {'domain': domain, 't': t, 'x': X.ravel().tolist(), 'datum': nm}
            try:
                val = float(np.asarray(op.evaluate(t, X)).ravel()[0])
            except Exception as ex:
                fr = repo_frame(ex)
                if fr is None:
                    raise
                acc.violation('m0-evaluate-raised:%s' % type(ex).__name__, '%s: evaluate raised at %s:%d' % (domain, fr[1], fr[2]), w)
                continue
            ref = float(np.asarray(M(np.array([t]), X)).ravel()[0])
            err = abs(val - ref) / abs(ref)
            acc.case('%s|eval|%r|%r|%s' % (domain, t, X.ravel().tolist(), nm), None)
            acc.seen('fn:evaluate')
            acc.worst_of('evaluate vs exact potential (%s)' % domain, err)
            if err > 1e-5:
                acc.violation('m0-evaluate-inexact:' + domain, '%s: (M0 u0)(%r, %r) = %r, exact %r (rel %.2e)' % (domain, t, X.ravel().tolist(), val, ref, err), w)
    acc.sample({'domain': domain, 'cases': spec['n']}, 'rel' + domain)


def run_shard(spec, acc):
    {'exact': run_exact, 'rel': run_rel}[spec['mode']](spec, acc)
