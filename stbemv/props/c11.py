"""C11 - Galerkin entries are additive under splitting of either element."""
import random

ID = 'C11'
TITLE = 'sum over time halves / space halves / quarters of either element reproduces the unsplit entry'
LEVEL = 'exploration'
RULE = ('on random aspect-bounded meshes of the five curves every ordered leaf pair (incl. the diagonal) of a seeded sample is '
        'split on the test side, the trial side or both into time halves, space halves or quarters (children built like the '
        'estimators build them: DummyElement on float midpoints); all entries come from the real bilform (both switch values); '
        'oracle: |sum of pieces - whole| <= 1e-7*sqrt(D_test*D_trial) with reference diagonals; a split that would push a piece '
        'over aspect 32 is skipped. distinct = distinct (curve, mesh, pair, split kinds, switch)')
RULE += ' ' + 'A further class are synthetic far pairs with a short time lag (panels of level 2-5 on two sides, h_t = h^2/aspect, lag 0-8 steps): small entries where whole and pieces would fall on different sides of any distance / time-lag cut-off.'
ASSUMPTIONS = ['no reference integral is needed: the relation is between values of the implementation itself',
               'scope: every piece has h_x^2/h_t <= 32 (time halves double the aspect)']
REQUIRED = {t: ['split:time', 'split:space', 'split:quarter', 'side:test', 'side:trial', 'side:both', 'pair:diagonal', 'pair:touching',
                'pair:same-slab', 'pair:other-slab', 'pair:far-short-lag', 'pair:very-short-elements', 'mesh:graded-initial-grid', 'switch:exact', 'switch:quad',
                'curve:UnitSquare', 'curve:PiSquare', 'curve:LShape', 'curve:Circle', 'curve:UnitInterval']
            for t in ('quick', 'thorough')}
TIMEOUT = {'quick': 900, 'thorough': 5400}
CURVES = ['UnitSquare', 'PiSquare', 'LShape', 'Circle', 'UnitInterval']
KINDS = ['none', 'time', 'space', 'quarter']


def plan(tier, seed):
    specs = []
    for c in CURVES:
        for k in range(3 if tier == 'quick' else 32):
            specs.append({'name': 'mesh-%s-%d' % (c, k), 'curve': c, 'rseed': seed * 271 + k, 'n_ops': 20 + 10 * k if tier == 'quick' else 30 + 6 * k,
                          'n_pairs': 160 if tier == 'quick' else 1200})
    for c in CURVES:
        for k in range(2 if tier == 'quick' else 8):
            specs.append({'name': 'graded-%s-%d' % (c, k), 'curve': c, 'rseed': seed * 277 + 100 + k, 'n_ops': 4 + 6 * k, 'graded': True,
                          'n_pairs': 160 if tier == 'quick' else 800})
    return specs


def split(e, kind):
    from src.hierarchical_error_estimator import DummyElement
    from src.mesh import Vertex
    if kind == 'none':
        return [e]
    t0, t1 = e.time_interval
    x0, x1 = e.space_interval
    tm, xm = (t0 + t1) / 2, (x0 + x1) / 2
    ts = [(t0, tm), (tm, t1)] if kind in ('time', 'quarter') else [(t0, t1)]
    xs = [(x0, xm), (xm, x1)] if kind in ('space', 'quarter') else [(x0, x1)]
    out = []
    for a, b in ts:
        for c, d in xs:
            vs = [Vertex(a, c, -1), Vertex(a, d, -1), Vertex(b, d, -1), Vertex(b, c, -1)]
            out.append(DummyElement(vs, e.gamma_space))
    return out


def run_shard(spec, acc):
    import numpy as np
    from ..monitor import repo_frame
    from ..oracles import refint
    from ..workloads import slpairs
    from src.single_layer import SingleLayerOperator
    curve = spec['curve']
    rng = random.Random(spec['rseed'] * 13 + CURVES.index(curve))
    ls, geo = slpairs.make_mesh(curve, spec['rseed'] * 19 + CURVES.index(curve), spec['n_ops'],
                                time_grid=rng.choice([[0, 1], [0, 0.5, 1]]), custom_grid='graded' if spec.get('graded') else rng.random() < 0.3)
    if spec.get('graded'):
        acc.seen('mesh:graded-initial-grid')
    elems = list(ls.mesh.leaf_elements)
    wit0 = {'curve': curve, 'mesh': ls.spec, 'history': ls.history}
    acc.seen('curve:' + curve)
    SLs = {False: SingleLayerOperator(ls.mesh, pw_exact=False), True: SingleLayerOperator(ls.mesh, pw_exact=True)}
    n = len(elems)
    pairs = [(i, i) for i in range(n)]
    allp = [(i, j) for i in range(n) for j in range(n) if i != j]
    rng.shuffle(allp)
    # prefer near pairs: touching / same slab first
    def near(p):
        a, b = elems[p[0]], elems[p[1]]
        gap = max(a.space_interval[0] - b.space_interval[1], b.space_interval[0] - a.space_interval[1], 0)
        return gap
    allp.sort(key=near)
    pairs += allp[:spec['n_pairs'] // 2] + rng.sample(allp, min(len(allp), spec['n_pairs'] // 2))
    if curve == 'PiSquare' and spec['name'] == 'graded-PiSquare-0':
        # the recorded finding's own witness (a short element touching a 64 times longer one in the corner 3*pi)
        from src.hierarchical_error_estimator import DummyElement
        from src.mesh import Vertex
        gam = ls.mesh.gamma_space

        def dummy(t, x):
            vs = [Vertex(t[0], x[0], -1), Vertex(t[0], x[1], -1), Vertex(t[1], x[1], -1), Vertex(t[1], x[0], -1)]
            return DummyElement(vs, gam.pw_gamma[geo.piece_of(*x)])
        elems = elems + [dummy((0.0, 1.0), (9.40023426816321, 9.42477796076938)), dummy((0.0, 1.0), (9.42477796076938, 10.995574287564276))]
        pairs = [(len(elems) - 2, len(elems) - 1), (len(elems) - 1, len(elems) - 2)] + pairs
    # synthetic far pairs with a short time lag (panels of level 2-5 on two sides, h_t = h^2/aspect, the test element 0-8 steps later):
    # entries that are small but far from negligible, where whole and pieces sit on different sides of any distance / time-lag threshold
    from src.hierarchical_error_estimator import DummyElement as _DE
    from src.mesh import Vertex as _V
    gam_ = ls.mesh.gamma_space

    def far_dummy(t, x):
        vs = [_V(t[0], x[0], -1), _V(t[0], x[1], -1), _V(t[1], x[1], -1), _V(t[1], x[0], -1)]
        return _DE(vs, gam_.pw_gamma[geo.piece_of(*x)])
    n_before = len(elems)
    for _ in range(max(6, spec['n_pairs'] // 8)):
        lv = rng.randint(2, 5)
        pcs = [rng.randrange(len(geo.starts) - 1) for _ in range(2)]
        ivs = []
        for pc_ in pcs:
            s0, s1 = geo.starts[pc_], geo.starts[pc_ + 1]
            hh = (s1 - s0) / 2**lv
            kk = rng.randrange(2**lv)
            ivs.append((s0 + kk * hh, s0 + (kk + 1) * hh))
        if ivs[0] == ivs[1] or min(ivs[0][1], ivs[1][1]) > max(ivs[0][0], ivs[1][0]):
            continue
        hx = ivs[0][1] - ivs[0][0]
        ht = hx * hx / 2.0**rng.randint(0, 4)
        lag = rng.randint(0, 8)
        elems = elems + [far_dummy((lag * ht, (lag + 1) * ht), ivs[0]), far_dummy((0.0, ht), ivs[1])]
        pairs.append((len(elems) - 2, len(elems) - 1))
        acc.seen('pair:far-short-lag')
    # synthetic near pairs of very short elements (1.2e-5 <= h_x <= 5e-5, what 15-16 space bisections of a side give): their halves
    # are shorter than 1e-5 but far above the 1e-7 the 2-D rules accept, so every piece must still be integrated
    for _ in range(max(4, spec['n_pairs'] // 16)):
        pc_ = rng.randrange(len(geo.starts) - 1)
        s0, s1 = geo.starts[pc_], geo.starts[pc_ + 1]
        hh = (s1 - s0) * 2.0**-rng.randint(15, 16)
        while hh < 1.2e-5:
            hh *= 2
        while hh > 5e-5:
            hh /= 2
        nmax = int(round((s1 - s0) / hh))
        kk = rng.choice([0, 1, 2, 5, nmax - 1])
        off = rng.choice([0, 1, 1, 2])
        if kk + off + 1 > nmax:
            off = 0

        def pt_(k_):     # one expression for every grid point, so that touching intervals share their end point bit for bit
            return s1 if k_ == nmax else s0 + k_ * hh
        xa_ = (pt_(kk), pt_(kk + 1))
        xb_ = (pt_(kk + off), pt_(kk + off + 1))
        ht = hh * hh / 2.0**rng.randint(0, 3)
        lag = rng.choice([0, 0, 1])
        elems = elems + [far_dummy((lag * ht, (lag + 1) * ht), xa_), far_dummy((0.0, ht), xb_)]
        pairs.append((len(elems) - 2, len(elems) - 1))
        acc.seen('pair:very-short-elements')
    for i, j in pairs:
        test, trial = elems[i], elems[j]
        if test.time_interval[1] <= trial.time_interval[0]:
            continue
        D = (refint.diagonal(geo, test.h_t, test.h_x) * refint.diagonal(geo, trial.h_t, trial.h_x))**0.5
        for exact in (False, True):
            SL = SLs[exact]
            try:
                whole = SL.bilform(trial, test)
                for k_test in KINDS:
                    for k_trial in KINDS:
                        if k_test == 'none' and k_trial == 'none':
                            continue
                        if (k_test == 'time' and slpairs.aspect(test) > 16) or (k_trial == 'time' and slpairs.aspect(trial) > 16):
                            acc.count('skipped_aspect')
                            continue
                        if rng.random() < 0.5 and i != j and not (spec['name'] == 'graded-PiSquare-0' and n <= i < n_before) and i < n_before:
                            continue
                        total = 0.0
                        vals = []
                        for te in split(test, k_test):
                            for tr in split(trial, k_trial):
                                vals.append(SL.bilform(tr, te))
                        total = float(np.sum(vals)) if np.all(np.isfinite(vals)) else float('nan')
                        err = abs(total - whole) / D
                        acc.case('%s|%d|%d|%d|%s|%s|%s' % (curve, spec['rseed'], i, j, k_test, k_trial, exact), None)
                        for kk in (k_test, k_trial):
                            if kk != 'none':
                                acc.seen('split:' + kk)
                        acc.seen('side:' + ('both' if 'none' not in (k_test, k_trial) else ('test' if k_trial == 'none' else 'trial')))
                        acc.seen('switch:' + ('exact' if exact else 'quad'))
                        if i == j:
                            acc.seen('pair:diagonal')
                        elif near((i, j)) == 0:
                            acc.seen('pair:touching')
                        acc.seen('pair:same-slab' if test.time_interval == trial.time_interval else 'pair:other-slab')
                        acc.worst_of('%s x %s (%s)' % (k_test, k_trial, 'exact' if exact else 'quad'), err)
                        if not (err <= 1e-7):
                            key = 'not-additive:test-%s:trial-%s:%s' % (k_test, k_trial, 'exact' if exact else 'quad')
                            # the recorded accuracy limit K4 of C01 (near-singular pairs around a corner) shows here too: whole and pieces are
                            # each off by up to the measured envelope, so their difference may reach twice the largest of these bounds
                            bounds = [slpairs.k4_envelope(slpairs.corner_nearness(geo, te.space_interval, tr.space_interval))
                                      for te in [test] + split(test, k_test) for tr in [trial] + split(trial, k_trial)]
                            bounds = [b for b in bounds if b is not None]
                            if bounds and err <= 2 * max(bounds):
                                key = 'not-additive:across-corner:near-singular'
                            acc.violation(key,
                                          '%s: whole %.17g, sum of pieces %.17g, difference %.3e of sqrt(D_test D_trial)' % (curve, whole, total, err),
                                          dict(wit0, test=(test.time_interval, test.space_interval), trial=(trial.time_interval, trial.space_interval),
                                               split_test=k_test, split_trial=k_trial, pw_exact=exact))
            except Exception as ex:
                fr = repo_frame(ex)
                if fr is None:
                    raise
                acc.violation('bilform-raised:%s:%s' % (fr[0], type(ex).__name__), '%s: raised %s at %s:%d' % (curve, type(ex).__name__, fr[1], fr[2]),
                              dict(wit0, test=(test.time_interval, test.space_interval), trial=(trial.time_interval, trial.space_interval)))
    acc.sample({'curve': curve, 'n_elements': n, 'pairs': len(pairs), 'history_head': ls.history[:4]}, curve)
