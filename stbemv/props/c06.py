"""C06 - Doerfler marking refines a minimal bulk set, in exactly the marked directions."""
import itertools
import random
from fractions import Fraction

ID = 'C06'
TITLE = 'Doerfler marking: shortest descending prefix, refined exactly in the marked directions'
LEVEL = 'exploration'
RULE = ('each call of dorfler_refine_isotropic/_anisotropic on a live mesh is observed with a monitor on '
        'Mesh.refine_axis (requested bisections = recursion depth 0 = the marked set; deeper ones = closure). Oracle: '
        '(1) with exact rational sums of the float indicators the marked contributions are a prefix of a descending '
        'order (every marked >= every unmarked; ties free), reach theta^2*total, and do not reach it without their '
        'smallest member (both with 1e-12 relative slack); (2) the post-mesh equals the reference model: minimal '
        '1-irregular closure of the marked time bisections, then of the marked space bisections applied to the time '
        'halves where the element was bisected in time; (3) the call returns. Exhaustive part: all rank orders of '
        'the indicators on small meshes x a theta grid. distinct = distinct (mesh state, variant, theta, marked set)')
RULE += ' ' + 'A further group of shards calls both routines with theta within a few ulps of 1 (1-2^-53 ... 1-1e-13) on random indicator vectors, where theta^2*total falls on either side of the floating-point running sum.'
ASSUMPTIONS = [
    'marked set read from the depth-0 refine_axis requests (if none are observed although the mesh changed the run is inconclusive)',
    'slack 1e-12 relative on the two threshold comparisons so that floating accumulation order is never the cause of an alarm',
    'total = 0: zero or one marked element accepted',
]
REQUIRED = {t: ['variant:iso', 'variant:aniso', 'eta:perm', 'eta:rand', 'eta:tied', 'eta:zero', 'eta:dominant',
                'eta:denormal', 'eta:threshold', 'marked:closure-forced', 'marked:space-on-time-halves', 'mesh:glued', 'mesh:open', 'theta:within-ulps-of-one']
            for t in ('quick', 'thorough')}
TIMEOUT = {'quick': 900, 'thorough': 5400}

SMALL = [
    # (mesh spec, prior ops)  -> meshes with 2..5 leaves, some with level jumps so that closure is forced
    ({'space_grid': [0, 1, 2], 'time_grid': [0, 1], 'glued': False}, []),
    ({'space_grid': [0, 1, 2], 'time_grid': [0, 1], 'glued': True}, []),
    ({'space_grid': [0, 1], 'time_grid': [0, 1], 'glued': True}, [['b', 0, 0]]),
    ({'space_grid': [0, 1], 'time_grid': [0, 1], 'glued': False}, [['b', 0, 1], ['b', 0, 0]]),
    ({'space_grid': [0, 1, 2], 'time_grid': [0, 1], 'glued': True}, [['b', 0, 0]]),
    ({'space_grid': [0, 1, 2], 'time_grid': [0, 1], 'glued': False}, [['b', 1, 1], ['b', 1, 1]]),
    ({'space_grid': [0, 1], 'time_grid': [0, 1, 2], 'glued': False}, [['b', 0, 0], ['b', 1, 0]]),
    ({'space_grid': [0, 0.3, 1.7], 'time_grid': [0, 0.7], 'glued': True}, [['b', 1, 1], ['b', 0, 0]]),
    ({'curve': 'UnitSquare'}, []),
    ({'curve': 'Circle'}, [['b', 0, 0]]),
]
THETAS = [0.1, 0.3, 0.5, 0.7, 0.9, 0.99]


def plan(tier, seed):
    specs = []
    for i in range(len(SMALL)):
        for variant in ('iso', 'aniso'):
            specs.append({'name': 'perm-%d-%s' % (i, variant), 'mode': 'perm', 'small': i, 'variant': variant})
    n = 16 if tier == 'quick' else 256
    for k in range(n):
        specs.append({'name': 'seq-%d' % k, 'mode': 'seq', 'rseed': seed * 977 + k,
                      'n_hist': 4 if tier == 'quick' else 16, 'rounds': 12})
    for k in range(4 if tier == 'quick' else 32):
        specs.append({'name': 'nearone-%d' % k, 'mode': 'nearone', 'rseed': seed * 983 + k, 'n': 150 if tier == 'quick' else 400})
    return specs


# ---------------------------------------------------------------------------
def observe_call(acc, ls, log, variant, eta, theta, label, wit):
    """Run one real marking call on ls.mesh under the monitor and judge it. Returns True if judged OK."""
    import numpy as np
    from ..monitor import repo_frame
    from ..oracles import refmesh as rm
    mesh = ls.mesh
    pre = [rm.rect_of(e) for e in mesh.leaf_elements]
    pre_set = set(pre)
    ref = rm.RefMesh.from_leaves(rm.leaf_dict(mesh).items(), ls.glued, ls.domain)
    log.take()
    n = len(pre)
    try:
        if variant == 'iso':
            mesh.dorfler_refine_isotropic(eta, theta)
        else:
            mesh.dorfler_refine_anisotropic(eta, theta)
    except Exception as ex:
        fr = repo_frame(ex)
        if fr is None:
            raise
        acc.violation('dorfler-raised:%s:%s' % (fr[0], type(ex).__name__),
                      'marking call raised %s at %s:%d' % (type(ex).__name__, fr[1], fr[2]), wit)
        log.take()
        return False
    ev = log.take()
    req = [(r, ax) for r, ax, depth in ev if depth == 0]
    n_closure = sum(1 for e in ev if e[2] > 0)
    if not req:
        acc.inconclusive_because('no depth-0 refine_axis request observed during a marking call')
        return False
    # ---- reconstruct the marked contributions
    idx = {r: i for i, r in enumerate(pre)}
    time_marked = [r for r, ax in req if ax == 0]
    space_req = [r for r, ax in req if ax == 1]
    bad_hint = [r for r in time_marked if r not in pre_set]
    if bad_hint:
        acc.violation('dorfler-marked-nonleaf', 'time bisection requested on %r which was not a leaf' % (bad_hint[0], ), wit)
        return False
    space_marked = []      # original leaves marked for space
    on_halves = 0
    for r in space_req:
        if r in pre_set:
            space_marked.append(r)
        else:
            par = [p for p in pre if p[2] == r[2] and p[3] == r[3] and p[0] <= r[0] and r[1] <= p[1]]
            if len(par) != 1:
                acc.violation('dorfler-space-request-unknown', 'space bisection requested on %r, not a leaf nor inside one' % (r, ), wit)
                return False
            on_halves += 1
            if par[0] not in space_marked:
                space_marked.append(par[0])
    if variant == 'iso':
        contrib = {(r, 'b'): Fraction(float(eta[idx[r]])) for r in pre}
        marked = {(r, 'b') for r in time_marked}
        # every marked element must also be requested in space on both its time halves
        sm = set(space_marked)
        if sm != set(time_marked):
            acc.violation('dorfler-iso-directions', 'isotropic marking: time-marked %d elements but space requests cover %d' %
                          (len(set(time_marked)), len(sm)), wit)
    else:
        contrib = {}
        for r in pre:
            contrib[(r, 0)] = Fraction(float(eta[idx[r], 0]))
            contrib[(r, 1)] = Fraction(float(eta[idx[r], 1]))
        marked = {(r, 0) for r in time_marked} | {(r, 1) for r in space_marked}
    total = sum(contrib.values())
    th2 = Fraction(float(theta))**2
    s_marked = sum(contrib[m] for m in marked)
    slack = Fraction(1, 10**12)
    # the routine evaluates theta^2*total in double precision: besides the relative rounding (slack) the result is a multiple of the smallest
    # denormal, so for indicators in the denormal range the threshold itself is only known to within that granularity
    tiny = Fraction(1, 2**1073)
    ok = True
    if not marked:
        acc.violation('dorfler-nothing-marked', 'no contribution marked', wit)
        ok = False
    else:
        lo_marked = min(contrib[m] for m in marked)
        unmarked = [v for k, v in contrib.items() if k not in marked]
        if unmarked and max(unmarked) > lo_marked:
            acc.violation('dorfler-not-descending-prefix',
                          'an unmarked contribution %.17g exceeds a marked one %.17g' % (float(max(unmarked)), float(lo_marked)), wit)
            ok = False
        if total > 0:
            if s_marked < th2 * total * (1 - slack) - tiny:
                acc.violation('dorfler-bulk-not-reached', 'marked sum %.17g < theta^2*total %.17g' % (float(s_marked), float(th2 * total)), wit)
                ok = False
            if len(marked) > 1 and s_marked - lo_marked > th2 * total * (1 + slack) + tiny:
                acc.violation('dorfler-not-shortest', 'marked set reaches theta^2*total without its smallest member '
                              '(%.17g vs %.17g)' % (float(s_marked - lo_marked), float(th2 * total)), wit)
                ok = False
        elif len(marked) > 1:
            acc.violation('dorfler-not-shortest', 'total is zero but %d contributions were marked' % len(marked), wit)
            ok = False
    # ---- the post-mesh
    ref.bisect_many(list(dict.fromkeys(time_marked)), 0)
    targets = []
    src = time_marked if variant == 'iso' else space_marked
    for r in dict.fromkeys(src):
        if r in ref.leaves:
            targets.append(r)
        else:
            targets.extend(s for s in list(ref.leaves) if s[2] == r[2] and s[3] == r[3] and r[0] <= s[0] and s[1] <= r[1])
            acc.seen('marked:space-on-time-halves')
    ref.bisect_many(targets, 1)
    bad = rm.compare_leaves(mesh, ref)
    for b in bad[:1]:
        acc.violation('dorfler-post-mesh-differs', 'after marking: ' + b, wit)
        ok = False
    bad = rm.check_structure(mesh, ls.time_grid, ls.space_grid)
    for b in bad[:1]:
        acc.violation('dorfler-structure:' + b.split(' %')[0][:40].replace(' ', '-'), b, wit)
        ok = False
    if n_closure:
        acc.seen('marked:closure-forced')
    acc.seen('variant:' + variant)
    acc.seen('eta:' + label)
    acc.seen('mesh:' + ('glued' if ls.glued else 'open'))
    acc.count('marked_contributions', len(marked))
    acc.count('closure_bisections', n_closure)
    key = '%s|%s|%r|%s' % (rm.tree_signature(mesh), variant, theta, sorted(map(str, marked)))
    acc.case(key, None)
    ls.ref = rm.RefMesh.from_leaves(rm.leaf_dict(mesh).items(), ls.glued, ls.domain)
    return ok


def make_eta(rng, n, label, theta, np):
    if label == 'rand':
        v = [rng.random()**rng.choice([1, 3, 8]) for _ in range(n)]
    elif label == 'tied':
        v = [float(rng.choice([1, 2, 2, 4, 4, 4])) for _ in range(n)]
    elif label == 'zero':
        v = [0.0] * n
        if rng.random() < 0.4 and n > 1:
            v[rng.randrange(n)] = rng.random()
    elif label == 'dominant':
        v = [1e-9 * rng.random() for _ in range(n)]
        v[rng.randrange(n)] = 1.0
    elif label == 'denormal':
        v = [rng.choice([5e-324, 1e-310, 2.5e-320, 0.0, 1e-300]) for _ in range(n)]
    elif label == 'threshold':
        # one entry sits (up to a few ulps) exactly at theta^2 * total
        v = [rng.random() for _ in range(n)]
        rest = sum(v[1:]) if n > 1 else 0.0
        t2 = theta * theta
        a = t2 * rest / (1 - t2) if rest > 0 else 1.0
        a = float(np.nextafter(a, [0, 2 * a][rng.randrange(2)])) if rng.random() < 0.7 else a
        for _ in range(rng.randrange(3)):
            a = float(np.nextafter(a, [0, 2 * a][rng.randrange(2)]))
        v[0] = max(a, max(v[1:]) if n > 1 else 0.0) if rng.random() < 0.5 else a
        if rng.random() < 0.3:
            v = [103.68, 24.319999999999993] + [0.0] * (n - 2) if n >= 2 else v
    else:
        raise ValueError(label)
    return v


def run_perm(spec, acc):
    import numpy as np
    from ..workloads.meshes import LockStep, RefineLog
    ms, ops = SMALL[spec['small']]
    variant = spec['variant']
    log = RefineLog()
    try:
        def build():
            ls = LockStep(ms)
            for op in ops:
                ls.apply(tuple(op))
            return ls
        n = len(build().leaves())
        m = n if variant == 'iso' else 2 * n
        if m > 6:
            # all rank orders of the 6 largest contributions, the rest far below
            top = 6
        else:
            top = m
        vals_hi = [float((k + 1)**2) for k in range(top)]
        count = 0
        for perm in itertools.permutations(range(top)):
            base = [1e-3 * (j + 1) for j in range(m)]
            for slot, k in enumerate(perm):
                base[slot] = vals_hi[k]
            for theta in THETAS:
                ls = build()
                eta = np.array(base) if variant == 'iso' else np.array(base).reshape(2, n).T.copy()
                wit = {'mesh': ms, 'ops': ops, 'variant': variant, 'eta': base, 'theta': theta}
                observe_call(acc, ls, log, variant, eta, theta, 'perm', wit)
                count += 1
        acc.count('rank_orders', count // len(THETAS))
        acc.sample({'mesh': ms, 'prior_ops': ops, 'variant': variant, 'n_leaves': n, 'rank_orders': count // len(THETAS),
                    'thetas': THETAS}, 'perm')
    finally:
        log.close()


def run_seq(spec, acc):
    import numpy as np
    from ..oracles import refmesh as rm
    from ..workloads.meshes import LockStep, RefineLog
    from ..workloads.meshexplore import random_mesh_spec
    rng = random.Random(spec['rseed'])
    log = RefineLog()
    labels = ['rand', 'tied', 'zero', 'dominant', 'denormal', 'threshold']
    try:
        for h in range(spec['n_hist']):
            ms = random_mesh_spec(rng)
            ls = LockStep(ms)
            for _ in range(rng.randrange(0, 25)):
                L = ls.leaves()
                ls.apply(('b', rng.randrange(len(L)), rng.randrange(2)))
            hist = list(ls.history)
            for rnd in range(spec['rounds']):
                L = ls.leaves()
                if len(L) > 2500:
                    break
                n = len(L)
                variant = rng.choice(['iso', 'aniso'])
                theta = rng.choice(THETAS + [rng.uniform(0.01, 0.99), 1e-6, 1 - 1e-9])
                label = labels[(h + rnd + rng.randrange(2)) % len(labels)]
                if variant == 'iso':
                    eta = np.array(make_eta(rng, n, label, theta, np))
                else:
                    eta = np.array(make_eta(rng, 2 * n, label, theta, np)).reshape(2, n).T.copy()
                wit = {'mesh': ms, 'history': hist, 'variant': variant, 'theta': theta, 'eta_kind': label,
                       'eta': eta.tolist() if n <= 12 else 'n=%d rseed=%d round=%d' % (n, spec['rseed'], rnd), 'round': rnd}
                ok = observe_call(acc, ls, log, variant, eta, theta, label, wit)
                hist = hist + [['mark', variant, label, theta]]
                if not ok:
                    break
                # interleave other refinements
                for _ in range(rng.randrange(0, 4)):
                    L = ls.leaves()
                    ls.apply(('b', rng.randrange(len(L)), rng.randrange(2)))
                    hist.append(ls.history[-1])
            if h == 0:
                acc.sample({'mesh': ms, 'history_head': hist[:10], 'final_leaves': len(ls.mesh.leaf_elements)}, 'seq')
    finally:
        log.close()


def run_near_one(spec, acc):
    """theta within a few ulps of 1 (the property says all theta in (0,1)): theta^2*total then lies a few ulps below the total, on either
    side of the floating-point running sum; whatever the rounding decides, the marked set must reach the bulk (everything marked is fine)."""
    import numpy as np
    from ..workloads.meshes import LockStep, RefineLog
    rng = random.Random(spec['rseed'])
    log = RefineLog()
    thetas = [1 - 2.0**-53, 1 - 2.0**-52, 1 - 2.0**-51, 1 - 1e-15, 1 - 1e-13]
    try:
        for k in range(spec['n']):
            ms, ops = SMALL[rng.randrange(len(SMALL))]
            ls = LockStep(ms)
            for op in ops:
                ls.apply(tuple(op))
            for _ in range(rng.randrange(0, 12)):
                L = ls.leaves()
                ls.apply(('b', rng.randrange(len(L)), rng.randrange(2)))
            n = len(ls.leaves())
            variant = 'aniso' if k % 3 else 'iso'
            theta = thetas[k % len(thetas)]
            vals = [rng.random() * 10**rng.uniform(-2, 2) for _ in range(n if variant == 'iso' else 2 * n)]
            eta = np.array(vals) if variant == 'iso' else np.array(vals).reshape(2, n).T.copy()
            wit = {'mesh': ms, 'history': list(ls.history), 'variant': variant, 'theta': theta, 'eta_kind': 'rand', 'eta': eta.tolist() if n <= 12 else 'n=%d rseed=%d k=%d' % (n, spec['rseed'], k)}
            observe_call(acc, ls, log, variant, eta, theta, 'theta-near-one', wit)
            acc.seen('theta:within-ulps-of-one')
        acc.sample({'mode': 'near-one', 'calls': spec['n'], 'thetas': thetas}, 'nearone')
    finally:
        log.close()


def run_shard(spec, acc):
    if spec['mode'] == 'nearone':
        return run_near_one(spec, acc)
    if spec['mode'] == 'perm':
        run_perm(spec, acc)
    else:
        run_seq(spec, acc)


def finalize(m, tier):
    return {'rank_orders_enumerated': int(m['counters'].get('rank_orders', 0)),
            'exhaustive': False,
            'explanation': 'rank orders on the 10 small meshes are enumerated completely (x 6 theta); sequences are random'}
