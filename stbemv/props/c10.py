"""C10 - reported edge neighbours are exactly the geometric neighbours."""
from ..workloads import meshexplore

ID = 'C10'
TITLE = 'edge neighbours == geometric neighbours'
LEVEL = 'exploration'
RULE = ('same executions as C02 (bounded-exhaustive bisection sequences from 18 small initial meshes + long random '
        'histories incl. marking steps); after each operation Edge.neighbour_elements() of every edge of every leaf '
        '(random histories: all leaves every 10th step and on small meshes, otherwise the leaves touched by the step '
        'plus a seeded sample of 32) is compared, as a set, with the leaves that share a piece of positive length of '
        'that side in a geometric model rebuilt from the actual leaf rectangles (seam x=0 ~ x=L identified when '
        'glued); also: no duplicates, <= 2, symmetric, boundary flag <=> no neighbour <=> t=0/t=T/open end, every '
        'reported neighbour is a current leaf. distinct = distinct (initial mesh, tree signature) states + histories')
RULE += ' ' + 'Also three chains of 1060 bisections towards t = 0 / x = 0 (every edge there has ~1000 ancestors); the reported neighbours are compared with a brute-force geometric rule on exact float comparisons at ten checkpoints.'
ASSUMPTIONS = [
    'geometric neighbour rule: positive-length overlap of the shared side, on the float coordinates held in memory',
    'held on the executions observed; explored, not exhausted',
]
REQUIRED = {
    'quick': ['edge:boundary', 'edge:one', 'edge:two', 'edge:seam', 'edge:finer', 'edge:coarser',
              'random:glued', 'random:open', 'op:dorfler', 'source:repo-test-suite', 'deep:seam-last-top', 'deep:seam-first-top', 'deep:interior-top', 'deep:1000-ancestors:time-to-0', 'deep:1000-ancestors:space-to-0'],
}
REQUIRED['thorough'] = REQUIRED['quick']
TIMEOUT = {'quick': 900, 'thorough': 7200}


def plan(tier, seed):
    return meshexplore.plan(tier, seed)


def run_shard(spec, acc):
    meshexplore.run_shard(spec, acc, 'C10')


def finalize(m, tier):
    return {'states': int(m['counters'].get('bfs_states', 0)),
            'transitions': int(m['counters'].get('bfs_transitions', 0)),
            'edges_checked': int(m['counters'].get('edges_checked', 0))}
