"""C04 - causality: the single-layer matrix is Volterra-structured and never negative."""
import random

ID = 'C04'
TITLE = 'acausal => exactly 0.0; causal => not negative, positive above underflow; rows=test, cols=trial'
LEVEL = 'exploration'
RULE = ('a monitor on SingleLayerOperator.bilform records every call made while the inline, serial and process-pool paths of '
        'bilform_matrix assemble square and rectangular matrices on random aspect-bounded meshes of all five curves (both switch '
        'values); evaluate, evaluate_exact and potential are swept over times exactly at, just before/after and between the start '
        'and end of the trial element and over points inside, at the ends of, next to and far from it. Oracle on EVERY event: '
        'observation interval/time ends no later than the trial element begins => result == 0.0 exactly; otherwise result >= '
        '-1e-15*sqrt(D_i*D_j) (reference diagonals), and a causal result <= 0 is a violation when the rigorous lower bound '
        '|X||Y|*K(r_max) (mpmath, time-integrated kernel decreasing in r) exceeds 1e-250. Matrix convention: mat[i,j] is bit-equal '
        'to bilform(trial_j, test_i) on rectangular lists with len(test) != len(trial); with elements sorted by slab every block '
        'above the diagonal is exactly zero and some mat[i,j] != 0 == mat[j,i] exists. distinct = distinct (curve, mesh, event)')
RULE += ' ' + 'The time sweep includes eight log-uniform times t0 + h_t*2^-u, u in [1,26], shortly after the element starts (far points whose exact value is tiny but far above the underflow range).'
ASSUMPTIONS = [
    'lower bound: the doubly time-integrated kernel is decreasing in the squared distance r; r_max is attained at segment end '
    'points on polygons and bounded by the chord of the angular range on the circle',
    'pointwise evaluations: non-negativity is judged against 1e-15 times the largest value seen for that element in the sweep',
]
REQUIRED = {t: ['event:bilform-acausal', 'event:bilform-causal', 'event:bilform-time-touch', 'path:inline', 'path:serial', 'path:pool',
                'matrix:rectangular', 'matrix:asymmetric-pair-seen', 'call:test-list-only', 'eval:evaluate', 'eval:evaluate_exact', 'eval:potential', 'eval:t-shortly-after-start', 'scale:tiny-time-step-at-late-time',
                'eval:t-at-start', 'eval:t-at-end', 'eval:t-before-start', 'switch:exact', 'switch:quad', 'event:tiny-positive',
                'curve:UnitSquare', 'curve:PiSquare', 'curve:LShape', 'curve:Circle', 'curve:UnitInterval', 'source:repo-test-suite', 'source:driver']
            for t in ('quick', 'thorough')}
TIMEOUT = {'quick': 900, 'thorough': 5400}
CURVES = ['UnitSquare', 'PiSquare', 'LShape', 'Circle', 'UnitInterval']


def plan(tier, seed):
    specs = []
    n_mesh = 3 if tier == 'quick' else 10
    for c in CURVES:
        for k in range(n_mesh):
            specs.append({'name': 'mesh-%s-%d' % (c, k), 'curve': c, 'rseed': seed * 389 + k,
                          'n_ops': (24 if tier == 'quick' else 60) + 8 * k, 'n_eval': 40 if tier == 'quick' else 200})
    specs.append({'name': 'suite-sl-tests', 'mode': 'suite', 'files': ['src/h_h2_error_estimator_test.py', 'src/error_estimator_test.py']})
    drv = [('Dirichlet', 'Circle', 'anisotropic', False), ('Singular', 'LShape', 'isotropic', True), ('MildSingular', 'UnitSquare', 'uniform', False)]
    if tier == 'thorough':
        drv += [('Smooth', 'PiSquare', 'anisotropic', True), ('Dirichlet', 'LShape', 'anisotropic', False), ('MildSingular', 'PiSquare', 'isotropic', True)]
    for p, d, r, x in drv:
        specs.append({'name': 'driver-%s-%s' % (p, d), 'mode': 'driver', 'problem': p, 'domain': d, 'refinement': r, 'exact': x,
                      'loops': 2 if tier == 'quick' else 3})
    return specs


def ekey(e):
    return (tuple(e.time_interval), tuple(e.space_interval))


def run_shard(spec, acc):
    if spec.get('mode') == 'suite':
        from ..workloads.suite import run_suite
        return run_suite(acc, 'C04', spec['files'])
    if spec.get('mode') == 'driver':
        return run_driver_shard(spec, acc)
    import multiprocessing as mp
    import numpy as np
    from ..monitor import repo_frame
    from ..oracles import refint
    from ..workloads import slpairs
    from src.single_layer import SingleLayerOperator
    curve = spec['curve']
    rng = random.Random(spec['rseed'] * 11 + CURVES.index(curve))
    tg = rng.choice([[0, 1], [0, 0.5, 1], [0, 1, 2, 3], [0, 0.25, 0.5, 0.75, 1.0]])
    ls, geo = slpairs.make_mesh(curve, spec['rseed'] * 17 + CURVES.index(curve), spec['n_ops'], time_grid=tg)
    mesh = ls.mesh
    elems = list(mesh.leaf_elements)
    wit0 = {'curve': curve, 'mesh': ls.spec, 'history': ls.history}
    acc.seen('curve:' + curve)

    def D(e):
        return refint.diagonal(geo, e.h_t, e.h_x)

    def judge_entry(val, test, trial, where, exact):
        """causality / sign oracle on one entry value"""
        a, b = test.time_interval
        c, d = trial.time_interval
        acc.case('%s|%d|%r|%r|%s|%s' % (curve, spec['rseed'], ekey(test), ekey(trial), where, exact), None)
        w = dict(wit0, test=ekey(test), trial=ekey(trial), path=where, pw_exact=exact, value=val)
        if b <= c:
            acc.seen('event:bilform-acausal')
            if not (val == 0.0):
                acc.violation('acausal-entry-nonzero:' + where, '%s: test ends at %r <= trial starts at %r but entry is %r' % (curve, b, c, val), w)
            return
        acc.seen('event:bilform-causal')
        if a == d:
            acc.seen('event:bilform-time-touch')
        if not np.isfinite(val):
            acc.violation('entry-not-finite:' + where, '%s: causal entry is %r' % (curve, val), w)
            return
        scale = (D(test) * D(trial))**0.5
        if val <= 0:
            lb = refint.lower_bound(geo, test.time_interval, test.space_interval, trial.time_interval, trial.space_interval)
            sw = 'exact' if exact else 'quad'
            # the closed-form path sums terms of either sign: where the exact value itself lies below the rounding of
            # those terms it returns noise (|value| <= 1e-11*scale observed); recorded as a known finding, see DESIGN.md
            noise_class = exact and abs(val) <= 1e-11 * scale and lb <= 1e-11 * scale
            if val < -1e-15 * scale:
                if noise_class:
                    acc.violation('closed-form-rounding-noise:entry', '%s: causal entry %r < -1e-15*%r on the closed-form path '
                                  '(exact value >= %s)' % (curve, val, scale, mp_str(lb)), w)
                else:
                    acc.violation('causal-entry-negative:%s:%s' % (where, sw), '%s: causal entry %r < -1e-15*%r' % (curve, val, scale), w)
            elif lb > 1e-250:
                if noise_class:
                    acc.violation('closed-form-rounding-noise:entry', '%s: causal entry is %r on the closed-form path although the exact '
                                  'value is >= %s' % (curve, val, mp_str(lb)), w)
                else:
                    acc.violation('causal-entry-%s:%s:%s' % ('zero' if val == 0 else 'negative-noise', where, sw),
                                  '%s: causal entry is %r although the exact value provably exceeds %s' % (curve, val, mp_str(lb)), w)
            else:
                acc.count('nonpositive_below_underflow_bound')
        if 0 < val < 1e-30 * scale:
            acc.seen('event:tiny-positive')
        acc.worst_of('min causal entry / scale (negated)', -val / scale)

    log = slpairs.BilformLog()
    try:
        for exact in (False, True):
            acc.seen('switch:' + ('exact' if exact else 'quad'))
            SL = SingleLayerOperator(mesh, pw_exact=exact)
            # elements sorted by slab
            order = sorted(elems, key=lambda e: (e.time_interval[0], e.time_interval[1], e.space_interval[0]))
            try:
                # ---- serial path, square
                mat = SL.bilform_matrix(order, order, use_mp=False)
                ev = log.take()
                acc.seen('path:serial')
                for _, test, trial, val in ev:
                    judge_entry(val, test, trial, 'bilform', exact)
                check_matrix(acc, SL, mat, order, order, 'serial', exact, judge_entry, wit0, log, curve)
                asym = False
                for i, ti in enumerate(order):
                    for j, tj in enumerate(order):
                        if ti.time_interval[1] <= tj.time_interval[0]:
                            if mat[i, j] != 0.0:
                                acc.violation('upper-block-nonzero:serial', '%s: mat[%d,%d]=%r above the block diagonal' % (curve, i, j, mat[i, j]),
                                              dict(wit0, test=ekey(ti), trial=ekey(tj)))
                            if mat[j, i] != 0.0:
                                asym = True
                if asym:
                    acc.seen('matrix:asymmetric-pair-seen')
                elif len({e.time_interval for e in order}) > 1:
                    acc.count('no_asymmetric_pair')
                # ---- only the test list given (keyword and positional): the trial list defaults to the same list
                perm = list(order)
                rng.shuffle(perm)
                for label, call in (('keyword', lambda: SL.bilform_matrix(elems_test=perm)), ('positional', lambda: SL.bilform_matrix(perm))):
                    m1 = call()
                    log.take()
                    acc.seen('call:test-list-only')
                    check_matrix(acc, SL, m1, perm, perm, 'serial', exact, judge_entry, wit0, log, curve)
                m0 = SL.bilform_matrix()
                log.take()
                check_matrix(acc, SL, m0, list(mesh.leaf_elements), list(mesh.leaf_elements), 'serial', exact, judge_entry, wit0, log, curve)
                # ---- rectangular lists on the three paths
                n = len(order)
                k1 = max(2, min(n - 1, 7))
                tests_small = rng.sample(order, k1)
                trials_small = rng.sample(order, max(1, min(n, 99 // k1 - 1)))
                if len(tests_small) * len(trials_small) < 100 and len(tests_small) != len(trials_small):
                    m_in = SL.bilform_matrix(tests_small, trials_small)
                    log.take()
                    acc.seen('path:inline')
                    acc.seen('matrix:rectangular')
                    check_matrix(acc, SL, m_in, tests_small, trials_small, 'inline', exact, judge_entry, wit0, log, curve)
                tests_r = rng.sample(order, min(n, max(11, n // 2)))
                trials_r = rng.sample(order, min(n, max(10, n // 3)))
                if len(tests_r) * len(trials_r) >= 100 and len(tests_r) != len(trials_r):
                    m_s = SL.bilform_matrix(tests_r, trials_r, use_mp=False)
                    log.take()
                    acc.seen('matrix:rectangular')
                    check_matrix(acc, SL, m_s, tests_r, trials_r, 'serial', exact, judge_entry, wit0, log, curve)
                    for ncpu in (None, 1):
                        real_cpu = mp.cpu_count
                        if ncpu:
                            mp.cpu_count = lambda: ncpu      # one worker: several columns per task
                        try:
                            m_p = SL.bilform_matrix(tests_r, trials_r, use_mp=True)
                        finally:
                            mp.cpu_count = real_cpu
                        log.take()
                        acc.seen('path:pool')
                        check_matrix(acc, SL, m_p, tests_r, trials_r, 'pool', exact, judge_entry, wit0, log, curve)
            except Exception as ex:
                fr = repo_frame(ex)
                if fr is None:
                    raise
                acc.violation('assembly-raised:%s:%s' % (fr[0], type(ex).__name__), '%s: raised %s at %s:%d' % (curve, type(ex).__name__, fr[1], fr[2]), wit0)
                log.take()
            # ---- synthetic far / short-time pairs: values down to the underflow range
            tiny_pairs(acc, SL, mesh, geo, rng, curve, wit0, exact, judge_entry, log)
            # ---- pointwise sweeps
            sweep(acc, SL, mesh, geo, elems, rng, spec['n_eval'], curve, wit0, exact)
    finally:
        log.close()
    acc.sample({'curve': curve, 'time_grid': tg, 'n_elements': len(elems), 'history_head': ls.history[:5]}, curve)


def tiny_pairs(acc, SL, mesh, geo, rng, curve, wit0, exact, judge_entry, log):
    """Dummy elements (as the estimators build them) with short time intervals, far apart in space."""
    from src.hierarchical_error_estimator import DummyElement
    from src.mesh import Vertex
    gamma = mesh.gamma_space
    starts = geo.starts

    def dummy(t0, t1, x0, x1):
        p = geo.piece_of(x0, x1)
        vs = [Vertex(t0, x0, -1), Vertex(t0, x1, -1), Vertex(t1, x1, -1), Vertex(t1, x0, -1)]
        return DummyElement(vs, gamma.pw_gamma[p])

    # the recorded finding's own witness (closed-form rounding noise), re-observed on every run on the unit square
    if curve == 'UnitSquare' and exact:
        te = dummy(0.853271484375, 0.8533935546875, 3.03125, 3.0390625)
        tr = dummy(0.853271484375, 0.8533935546875, 3.6875, 3.6953125)
        judge_entry(float(SL.bilform(tr, te)), te, tr, 'bilform-synthetic', exact)
        log.take()
    for _ in range(60):
        kt = rng.randint(4, 16)
        ht = 2.0**-kt
        hx = 2.0**-rng.randint(max(1, (kt - 5) // 2 + 1), 9)
        if hx * hx / ht > 32:
            continue
        def place():
            p = rng.randrange(len(starts) - 1)
            plen = starts[p + 1] - starts[p]
            n = max(1, int(plen / hx))
            k = rng.randrange(n)
            x0 = starts[p] + k * hx
            return x0, min(x0 + hx, starts[p + 1])
        (x0, x1), (y0, y1) = place(), place()
        t0 = rng.randrange(int(1 / ht)) * ht
        style = rng.choice(['touch', 'equal', 'gap'])
        if style == 'touch':
            test_t, trial_t = (t0 + ht, t0 + 2 * ht), (t0, t0 + ht)
        elif style == 'equal':
            test_t = trial_t = (t0, t0 + ht)
        else:
            test_t, trial_t = (t0 + 2 * ht, t0 + 3 * ht), (t0, t0 + ht)
        te, tr = dummy(test_t[0], test_t[1], x0, x1), dummy(trial_t[0], trial_t[1], y0, y1)
        val = SL.bilform(tr, te)
        log.take()
        judge_entry(float(val), te, tr, 'bilform-synthetic', exact)
    # very short time steps (time level 17-40) away from t = 0: lags that are tiny relative to the absolute time (1e-5 .. 1e-12 of it),
    # elements close together so that the exact value is far above the underflow range
    for _ in range(40):
        kt = rng.randint(17, 40)
        ht = 2.0**-kt
        m = min(25, (kt - 5 + 1) // 2 + rng.randint(0, 2))
        hx = 2.0**-m
        if hx * hx / ht > 32:
            continue
        p = rng.randrange(len(starts) - 1)
        plen = starts[p + 1] - starts[p]
        k = rng.randrange(max(1, min(int(plen / hx) - 3, 2**20)))
        x0 = starts[p] + k * hx
        off = rng.choice([0, 0, 1, 2])
        y0 = x0 + off * hx
        if y0 + hx > starts[p + 1]:
            continue
        t0 = rng.choice([1.0 - 4 * ht, 0.5, 0.75 - ht, 0.25, 1.0 - 2.0**-10])
        style = rng.choice(['touch', 'equal', 'gap', 'equal'])
        if style == 'touch':
            test_t, trial_t = (t0 + ht, t0 + 2 * ht), (t0, t0 + ht)
        elif style == 'equal':
            test_t = trial_t = (t0, t0 + ht)
        else:
            test_t, trial_t = (t0 + 2 * ht, t0 + 3 * ht), (t0, t0 + ht)
        if not (test_t[1] - test_t[0] == ht and trial_t[1] - trial_t[0] == ht):
            continue
        te, tr = dummy(test_t[0], test_t[1], x0, x0 + hx), dummy(trial_t[0], trial_t[1], y0, y0 + hx)
        val = SL.bilform(tr, te)
        log.take()
        acc.seen('scale:tiny-time-step-at-late-time')
        judge_entry(float(val), te, tr, 'bilform-synthetic', exact)


def mp_str(x):
    import mpmath as mp
    return mp.nstr(x, 4)


def check_matrix(acc, SL, mat, tests, trials, path, exact, judge_entry, wit0, log, curve):
    """mat[i, j] must be bit-equal to bilform(trial_j, test_i); every entry goes through the causality oracle."""
    import numpy as np
    if mat.shape != (len(tests), len(trials)):
        acc.violation('matrix-shape:' + path, '%s: shape %r for %d tests x %d trials' % (curve, mat.shape, len(tests), len(trials)), wit0)
        return
    bad = 0
    for i, te in enumerate(tests):
        for j, tr in enumerate(trials):
            single = SL.bilform(tr, te)
            v = mat[i, j]
            if not (v == single or (np.isnan(v) and np.isnan(single))):
                bad += 1
                if bad <= 2:
                    acc.violation('matrix-convention:' + path,
                                  '%s: mat[%d,%d]=%r but bilform(trial_%d, test_%d)=%r (%d x %d, path %s)' %
                                  (curve, i, j, v, j, i, single, len(tests), len(trials), path),
                                  dict(wit0, test=ekey(te), trial=ekey(tr), path=path, pw_exact=exact))
            if path != 'serial' or len(tests) != len(trials):
                judge_entry(float(v), te, tr, path, exact)
    log.take()


def sweep(acc, SL, mesh, geo, elems, rng, n_eval, curve, wit0, exact):
    import numpy as np
    from ..monitor import repo_frame
    gamma = mesh.gamma_space
    L = geo.length
    T = max(e.time_interval[1] for e in elems)
    SL._init_elems(elems)
    witness = []
    if curve == 'PiSquare' and not exact:
        # the recorded evaluate_exact finding's own witness: a short element far from the evaluation point on the same side
        from src.hierarchical_error_estimator import DummyElement
        from src.mesh import Vertex
        a, b, c, d = 0.5625, 0.625, 2.356194490192345, 3.141592653589793
        we = DummyElement([Vertex(a, c, -1), Vertex(a, d, -1), Vertex(b, d, -1), Vertex(b, c, -1)], gamma.pw_gamma[0])
        SL._init_elems([we])
        witness = [(we, 0.59375, 0.0)]
    for it in range(n_eval + len(witness)):
        e = elems[rng.randrange(len(elems))] if it >= len(witness) else witness[it][0]
        t0, t1 = e.time_interval
        x0, x1 = e.space_interval
        times = [(t0, 't-at-start'), (t1, 't-at-end'), (float(np.nextafter(t0, -1)), 't-before-start'), (t0 - rng.random() * 0.3 - 1e-9, 't-before-start'),
                 (float(np.nextafter(t0, 9)), 't-after-start'), ((t0 + t1) / 2, 't-inside'), (t1 + rng.random() * (T - t1 + 0.1), 't-after-end'),
                 (float(np.nextafter(t1, 9)), 't-after-end')]
        # shortly after the start of the element, on a logarithmic scale: far points whose exact value is tiny but far above the
        # underflow range (exp(-r^2/(4 tau)) with the Euclidean r, which may be much shorter than the distance along the curve)
        times += [(t0 + e.h_t * 2.0**-rng.uniform(1, 26), 't-shortly-after-start') for _ in range(8)]
        pts = [x0, x1, (x0 + x1) / 2, min(L, x1 + 0.01 * e.h_x), max(0.0, x0 - 0.5 * e.h_x), rng.uniform(0, L), 0.0, L]
        if it < len(witness):
            times.append((witness[it][1], 't-inside'))
            pts.append(witness[it][2])
        vals = []
        for t, tcls in times:
            for xh in pts:
                xh = min(max(xh, 0.0), L)
                x = np.asarray(gamma.eval(xh), dtype=float).reshape(2, 1)
                calls = [('evaluate', lambda: SL.evaluate(e, t, xh, x))]
                pj = geo.piece_of(x0, x1)
                if not geo.circle and geo.starts[pj] <= xh <= geo.starts[pj + 1]:
                    calls.append(('evaluate_exact', lambda: SL.evaluate_exact(e, t, xh)))
                off = x + np.array([[0.37], [-0.21]]) * rng.choice([1.0, 0.1, 3.0])
                calls.append(('potential', lambda: SL.potential(e, t, off)))
                for name, fn in calls:
                    w = dict(wit0, elem=ekey(e), t=t, x_hat=xh, fn=name, pw_exact=exact)
                    try:
                        v = fn()
                    except AssertionError as ex:
                        fr = repo_frame(ex)
                        if fr is None:
                            raise
                        acc.count('eval_precondition_assert')  # the 1e-5 end-point precondition of the interval rule (C07's subject)
                        continue
                    except Exception as ex:
                        fr = repo_frame(ex)
                        if fr is None:
                            raise
                        acc.violation('eval-raised:%s:%s' % (name, type(ex).__name__), '%s: %s raised at %s:%d' % (curve, name, fr[1], fr[2]), w)
                        continue
                    if np.ndim(v) != 0 or v is None:
                        acc.violation('eval-returns-non-scalar:' + name, '%s: %s returned %s of shape %r where a number is promised'
                                      % (curve, name, type(v).__name__, np.shape(v)), w)
                        continue
                    v = float(v)
                    acc.case('%s|%r|%r|%r|%s|%s' % (curve, ekey(e), t, xh, name, exact), None)
                    acc.seen('eval:' + name)
                    acc.seen('eval:' + tcls)
                    if t <= t0:
                        if not (v == 0.0):
                            acc.violation('acausal-eval-nonzero:' + name, '%s: %s at t=%r <= element start %r gives %r' % (curve, name, t, t0, v), w)
                    else:
                        if v is None or not np.isfinite(v):
                            acc.violation('eval-not-finite:' + name, '%s: %s gives %r' % (curve, name, v), w)
                        else:
                            vals.append((float(v), name, w))
        if vals:
            scale = max(abs(v) for v, _, _ in vals)
            for v, name, w in vals:
                if v > 0:
                    continue
                lb = eval_lower_bound(geo, w['t'], w['x_hat'], w['elem']) if name != 'potential' else None
                noise_class = name == 'evaluate_exact' and abs(v) <= 1e-11 * scale and lb is not None and lb <= 1e-11 * scale
                if v < -1e-15 * max(scale, 1e-300):
                    if noise_class:
                        acc.violation('closed-form-rounding-noise:evaluate_exact', '%s: evaluate_exact = %r (largest value in the sweep %r)' % (curve, v, scale), w)
                    else:
                        acc.violation('causal-eval-negative:' + name, '%s: %s = %r (largest value in the sweep %r)' % (curve, name, v, scale), w)
                elif lb is not None and lb > 1e-250:
                    if noise_class:
                        acc.violation('closed-form-rounding-noise:evaluate_exact', '%s: evaluate_exact = %r although the exact value is >= %s'
                                      % (curve, v, mp_str(lb)), w)
                    else:
                        acc.violation('causal-eval-%s:%s' % ('zero' if v == 0 else 'negative-noise', name),
                                      '%s: %s = %r although the exact value provably exceeds %s' % (curve, name, v, mp_str(lb)), w)


def eval_lower_bound(geo, t, xh, elem):
    """Rigorous lower bound of (V 1_elem)(t, gamma(xh)): |Y| * k(r_max), k decreasing in r. None if undecidable."""
    import mpmath as mp
    (a, b), (y0, y1) = elem
    pj = geo.piece_of(y0, y1)
    try:
        pi = pj if geo.starts[pj] <= xh <= geo.starts[pj + 1] else geo.piece_of(xh, xh)
    except ValueError:
        return None
    rmax = geo.max_dist2(pi, xh, xh, pj, y0, y1)
    mp.mp.dps = 40
    if rmax <= 0:
        return mp.inf
    r = mp.mpf(rmax)
    k = mp.e1(r / (4 * (mp.mpf(t) - a)))
    if t > b:
        k -= mp.e1(r / (4 * (mp.mpf(t) - b)))
    return k / (4 * mp.pi) * (y1 - y0)


def run_driver_shard(spec, acc):
    """The matrix the real driver hands to numpy.linalg.solve (assembled by its process pool): Volterra structure and sign."""
    import numpy as np
    from ..monitor import repo_frame
    from ..oracles import refint
    from ..workloads.driver import run_driver
    argv = ['--problem', spec['problem'], '--domain', spec['domain'], '--refinement', spec['refinement'], '--no-h-h2']
    if spec['exact']:
        argv.append('--single-layer-exact')
    caps, err = run_driver(argv, loops=spec['loops'])
    wit0 = {'driver_argv': argv}
    if err is not None:
        fr = repo_frame(err)
        if fr is None:
            raise err
        acc.violation('driver-raised:%s:%s' % (fr[0], type(err).__name__), 'example.py raised %s at %s:%d' % (type(err).__name__, fr[1], fr[2]), wit0)
    geo = refint.Geo(spec['domain'])
    for li, cap in enumerate(caps):
        A = cap['solve'][0]
        elems = cap['elems']
        if A.shape != (len(elems), len(elems)):
            acc.violation('driver-matrix-shape', 'matrix %r for %d elements' % (A.shape, len(elems)), dict(wit0, loop=li))
            continue
        n_asym = 0
        for i, te in enumerate(elems):
            for j, tr in enumerate(elems):
                v = float(A[i, j])
                acc.case('%s|%d|%d|%d' % (spec['name'], li, i, j), None)
                w = dict(wit0, loop=li, test=ekey(te), trial=ekey(tr), value=v)
                if te.time_interval[1] <= tr.time_interval[0]:
                    acc.seen('event:bilform-acausal')
                    if v != 0.0:
                        acc.violation('acausal-entry-nonzero:driver', 'driver matrix [%d,%d] = %r for an acausal pair' % (i, j, v), w)
                    if A[j, i] != 0.0:
                        n_asym += 1
                else:
                    acc.seen('event:bilform-causal')
                    scale = (refint.diagonal(geo, te.h_t, te.h_x) * refint.diagonal(geo, tr.h_t, tr.h_x))**0.5
                    if not np.isfinite(v) or v < -1e-15 * scale:
                        acc.violation('causal-entry-negative:driver:%s' % ('exact' if spec['exact'] else 'quad'),
                                      'driver matrix [%d,%d] = %r' % (i, j, v), w)
                    elif v <= 0 and not (spec['exact'] and te.gamma_space is tr.gamma_space) and \
                            refint.lower_bound_positive(geo, te.time_interval, te.space_interval, tr.time_interval, tr.space_interval):
                        acc.violation('causal-entry-zero:driver', 'driver matrix [%d,%d] = %r although the exact value is positive' % (i, j, v), w)
        acc.seen('source:driver')
        if n_asym:
            acc.seen('matrix:asymmetric-pair-seen')
    acc.sample({'driver_argv': argv, 'loops': len(caps), 'sizes': [len(c['elems']) for c in caps]}, spec['name'])
