"""C15 - derived quadrature schemes preserve measure and polynomial exactness."""
import itertools
import math
import random

ID = 'C15'
TITLE = 'derived schemes: measure, polynomial exactness, mirrors, Duffy'
LEVEL = 'exploration'
RULE = ('every tabulated unweighted base rule (log, log-log, sqrt, 1/sqrt families with polynomial degree >= 0, and '
        'Gauss-Legendre of every odd order up to 23, and 29, 31: up to 16 nodes per direction, 24 576 nodes in the 3-D Duffy rules) x every constructor (map to interval, mirror, ProductScheme2D, '
        'mirror_x/y, DuffyScheme2D symmetric and not, ProductScheme3D, mirror_x/y/z, DuffySchemeIdentical3D symmetric '
        'and not, DuffySchemeTouch3D) x sampled target boxes with sides log-uniform in [1e-4,1e3]: integrate(1) equals '
        'the measure and every monomial (in box-local coordinates, and mirrored) of the stated degree range is '
        'integrated to 1e-12 relative through the real integrate(); double mirror equals the rule; symmetric and '
        'non-symmetric Duffy agree on symmetric integrands; log-singular model integrands against closed forms. '
        'A case is one (base rule, constructor, box, monomial); distinct counts (base rule, constructor, monomial)')
RULE += ' ' + 'Besides the sampled boxes every rule is applied to translated copies of the reference box (all sides exactly 1, and exactly 2, at non-zero integer offsets) in one, two and three dimensions.'
ASSUMPTIONS = [
    'degrees: tensor = base degree per coordinate (total degree <= base degree included), 2-D Duffy = base-1, 3-D Duffy = base-2',
    'monomials are taken in box-local affine coordinates ((x-a)/(b-a))^i and (1-(x-a)/(b-a))^i, a basis of the same '
    'polynomial space whose exact integral has no cancellation; boxes are sampled, rules x constructors x degrees are exhaustive',
    'QuadScheme1D/2D.integrate assert b-a > 1e-5 / 1e-7: sides start at 1e-4',
    'the Duffy maps multiply by a Jacobian of degree 1 (2-D) / 2 (3-D); "weights sum to the measure" is the degree-0 case '
    'of the stated exactness range and is judged when that range is non-empty (base degree >= 1 resp. >= 2)',
    'box origins lie within 4 box lengths of 0 in five cases out of six and anywhere in [-1e3, 1e3] in the sixth; the tolerance is '
    '1e-12 + 40*eps*max|coordinate|/side (rounding of the node coordinates themselves)',
]
REQUIRED = {t: ['ctor:interval', 'ctor:mirror1d', 'ctor:product2d', 'ctor:mirror2d', 'ctor:duffy2d', 'ctor:duffy2d-sym',
                'ctor:product3d', 'ctor:mirror3d', 'ctor:duffy3d-id', 'ctor:duffy3d-id-sym', 'ctor:duffy3d-touch',
                'ctor:double-mirror', 'ctor:sym-vs-nonsym', 'model:log-singular', 'box:unit-size-translated']
            for t in ('quick', 'thorough')}
TIMEOUT = {'quick': 900, 'thorough': 5400}


def base_rules():
    """[(family, key, degree)] - enumerated from the live tables via C05's enumeration."""
    import os
    from .. import env
    from . import c05
    src = open(os.path.join(env.REPO, 'src', 'quadrature_rules.py')).read()
    out = []
    for fam in ('log', 'log_log', 'sqrt', 'sqrtinv'):
        for key, _ in c05.branches(src, c05.FAMILIES[fam][0]):
            if key[0] >= 0:
                out.append((fam, key, key[0]))
    for n in list(range(1, 24, 2)) + [29, 31]:
        out.append(('gauss', n, n))
    return out


def plan(tier, seed):
    # the planner does not import the repository; shards split the rule list by index modulo
    K = 16
    return [{'name': 'rules-%d' % k, 'k': k, 'K': K, 'boxes': 6 if tier == 'quick' else 160} for k in range(K)] + \
           [{'name': 'models', 'models': True}]


def make_scheme(fam, key):
    from src import quadrature as Q
    if fam == 'gauss':
        return Q.gauss_quadrature_scheme(key)
    ctor = {'log': Q.log_quadrature_scheme, 'log_log': Q.log_log_quadrature_scheme,
            'sqrt': Q.sqrt_quadrature_scheme, 'sqrtinv': Q.sqrtinv_quadrature_scheme}[fam]
    return ctor(*key)


SPECIAL_SIDES = [1.0, 2.0]


def side(rng):
    return 10**rng.uniform(-4, 3)


def origin(rng, h):
    """Box origins: mostly within a few box lengths of 0, sometimes far away (|a| up to 1e3, any side length). For |a| >> h
    the local coordinate (x-a)/h of a node stored as the double a + h*p is itself only accurate to eps*|a|/h, which no scheme can
    undo; the tolerance in judge() carries that term, so far boxes still expose gross errors (a measure of 0, a lost factor)."""
    return rng.choice([0.0, -h / 2, -h, rng.uniform(-4, 4) * h, rng.uniform(-1, 1) * h,
                       rng.choice([10.0, 50.0, -200.0, 1000.0, rng.uniform(-1e3, 1e3)])])


class _Missing(Exception):
    pass


def mirrored(acc, sch, names, wit):
    """Apply mirror methods by name; the result must be a scheme whose points are the reflection of the
    original's in exactly those coordinates, with the same weights."""
    import numpy as np
    cur = sch
    for name in names:
        nxt = getattr(cur, name)()
        if nxt is None or not hasattr(nxt, 'points'):
            acc.violation('mirror-returns-nothing:' + name, '%s() returned %r' % (name, type(nxt).__name__), wit)
            raise _Missing(name)
        pts = np.array(cur.points, dtype=float)
        axis = {'mirror': None, 'mirror_x': 0, 'mirror_y': 1, 'mirror_z': 2}[name]
        want = 1 - pts if axis is None else pts.copy()
        if axis is not None:
            want[axis] = 1 - pts[axis]
        acc.case('reflect|%s|%s' % (name, wit), None)
        if nxt.points.shape != want.shape or np.max(np.abs(nxt.points - want)) > 0 or not np.array_equal(nxt.weights, cur.weights):
            acc.violation('mirror-not-a-reflection:' + name, '%s() is not the reflection of the rule in that coordinate' % name, wit)
        cur = nxt
    return cur


def run_shard(spec, acc):
    import numpy as np
    if spec.get('models'):
        return run_models(acc)
    from src import quadrature as Q
    rng = random.Random(spec['seed'] * 7919 + spec['k'])
    rules = base_rules()
    acc.extra['n_base_rules'] = len(rules)
    TOL = 1e-12

    def judge(ctor, fam, key, label, got, exact, box):
        err = abs(got - exact) / abs(exact)
        acc.case('%s|%s%r|%s' % (ctor, fam, key, label), None)
        acc.worst_of(ctor, err)
        # rounding of the node coordinates themselves: eps * |coordinate| / side, amplified by the degree
        cond = max(max(abs(box[2 * q]), abs(box[2 * q + 1])) / (box[2 * q + 1] - box[2 * q]) for q in range(len(box) // 2))
        if not (err <= TOL + 40 * 2.3e-16 * cond):
            acc.violation('scheme-inexact:%s' % ctor,
                          '%s on %s%r: %s integrates to %.17g, exact %.17g (rel %.2e) on box %r' %
                          (ctor, fam, key, label, got, exact, err, box),
                          {'ctor': ctor, 'family': fam, 'key': key, 'monomial': label, 'box': box})

    for idx, (fam, key, deg) in enumerate(rules):
        if idx % spec['K'] != spec['k']:
            continue
        s1 = make_scheme(fam, key)
        # ------------------------------------------------------------ 1-D
        wit = '%s%r' % (fam, key)
        try:
            m1 = mirrored(acc, s1, ['mirror'], wit)
        except _Missing:
            continue
        for variant, sch in (('interval', s1), ('mirror1d', m1)):
            acc.seen('ctor:' + variant)
            for i_box in range(spec['boxes'] + 2):
                h = max(side(rng), 2e-5)
                a = origin(rng, h)
                if i_box >= spec['boxes']:
                    # translated copies of the reference interval / of round sizes: every side exactly 1 (2, 1/2) at an integer offset
                    h, a = SPECIAL_SIDES[i_box - spec['boxes']], float(rng.choice([2, -1, 5, -3, 7]))
                    acc.seen('box:unit-size-translated')
                b = a + h
                hh = b - a
                for i in range(deg + 1):
                    for flip in (0, 1):
                        f = (lambda i, flip: lambda x: (((x - a) / hh) if not flip else (1 - (x - a) / hh))**i)(i, flip)
                        got = sch.integrate(f, a, b)
                        judge(variant, fam, key, 'xi^%d%s' % (i, "'" if flip else ''), got, hh / (i + 1), [a, b])
        # double mirror
        acc.seen('ctor:double-mirror')
        mm = m1.mirror()
        d = float(np.max(np.abs(mm.points - s1.points)))
        acc.case('double-mirror1d|%s%r' % (fam, key), None)
        acc.worst_of('double-mirror', d)
        if d > 4e-16 or not np.array_equal(mm.weights, s1.weights):
            acc.violation('double-mirror-differs:1d', 'mirror().mirror() of %s%r moves points by %.2e' % (fam, key, d),
                          {'family': fam, 'key': key})
        if s1.mirror() is not s1.mirror():
            acc.violation('mirror-not-cached', 'mirror() returns different objects', {'family': fam, 'key': key})
        # ------------------------------------------------------------ 2-D tensor (with a second, different rule)
        other_idx = (idx * 7 + 3) % len(rules)
        fam2, key2, deg2 = rules[other_idx]
        s2 = make_scheme(fam2, key2)
        if len(s1.points) * len(s2.points) > 700:
            fam2, key2, deg2, s2 = fam, key, deg, s1
        p2 = Q.ProductScheme2D(s1, s2)
        p2s = Q.ProductScheme2D(s1)
        boxes2 = []
        for _ in range(spec['boxes']):
            hx, hy = max(side(rng), 2e-7), max(side(rng), 2e-7)
            ax_, ay_ = origin(rng, hx), origin(rng, hy)
            boxes2.append((ax_, ax_ + hx, ay_, ay_ + hy))
        for hsp in SPECIAL_SIDES:
            ax_, ay_ = float(rng.choice([2, -1, 5, 0])), float(rng.choice([-3, 1, 4]))
            boxes2.append((ax_, ax_ + hsp, ay_, ay_ + hsp))

        def mono2(box, i, j, fx=0, fy=0):
            a, b, c, d_ = box
            def f(x):
                u = (x[0] - a) / (b - a)
                v = (x[1] - c) / (d_ - c)
                if fx: u = 1 - u
                if fy: v = 1 - v
                return u**i * v**j
            return f

        try:
            v2d = (('product2d', p2, deg, deg2), ('mirror2d', mirrored(acc, p2, ['mirror_x'], wit), deg, deg2),
                   ('mirror2d', mirrored(acc, p2, ['mirror_y'], wit), deg, deg2),
                   ('mirror2d', mirrored(acc, p2, ['mirror_x', 'mirror_y'], wit), deg, deg2))
        except _Missing:
            continue
        for variant, sch, dx, dy in v2d:
            acc.seen('ctor:' + variant)
            for box in boxes2:
                meas = (box[1] - box[0]) * (box[3] - box[2])
                pairs = [(i, j) for i in range(dx + 1) for j in range(dy + 1)]
                if len(pairs) > 60:  # all of total degree <= min plus the extreme corners plus a seeded sample
                    keep = {(i, j) for i, j in pairs if i + j <= min(dx, dy) and (i in (0, dx) or j in (0, dy) or i == j)}
                    keep |= {(dx, dy), (dx, 0), (0, dy)}
                    keep |= set(rng.sample(pairs, 25))
                    pairs = sorted(keep)
                for i, j in pairs:
                    got = sch.integrate(mono2(box, i, j, rng.random() < 0.3, rng.random() < 0.3), *box)
                    judge(variant, fam, (key, fam2, key2), 'u^%dv^%d' % (i, j), got, meas / ((i + 1) * (j + 1)), list(box))
        # double mirror 2-D
        for name in ('mirror_x', 'mirror_y'):
            try:
                mm = mirrored(acc, p2, [name, name], wit)
            except _Missing:
                continue
            d = float(np.max(np.abs(mm.points - p2.points)))
            acc.case('double-%s|%s%r' % (name, fam, key), None)
            acc.worst_of('double-mirror', d)
            if d > 4e-16 or not np.array_equal(mm.weights, p2.weights):
                acc.violation('double-mirror-differs:2d', '%s twice moves points by %.2e' % (name, d), {'family': fam, 'key': key})
        # ------------------------------------------------------------ 2-D Duffy (degree base-1)
        dD = deg - 1
        duf = Q.DuffyScheme2D(p2s, symmetric=False)
        dufs = Q.DuffyScheme2D(p2s, symmetric=True)
        try:
            vduf = (('duffy2d', duf), ('duffy2d', mirrored(acc, duf, ['mirror_x'], wit)),
                    ('duffy2d', mirrored(acc, duf, ['mirror_y'], wit)), ('duffy2d-sym', dufs))
        except _Missing:
            continue
        for variant, sch in vduf:
            acc.seen('ctor:' + variant)
            for box in boxes2:
                a, b, c, d_ = box
                meas = (b - a) * (d_ - c)
                if dD < 0:
                    acc.count('duffy_on_degree0_base_skipped')
                    continue
                got = sch.integrate(lambda x: np.ones(x.shape[1]), *box)
                judge(variant, fam, key, '1', got, meas, list(box))
                for i in range(0, max(dD, -1) + 1):
                    for j in range(0, dD - i + 1):
                        if variant == 'duffy2d-sym':
                            if j > i:
                                continue
                            f = lambda x, i=i, j=j: (((x[0] - a) / (b - a))**i * ((x[1] - c) / (d_ - c))**j +
                                                     ((x[0] - a) / (b - a))**j * ((x[1] - c) / (d_ - c))**i)
                            exact = 2 * meas / ((i + 1) * (j + 1))
                        else:
                            f = mono2(box, i, j)
                            exact = meas / ((i + 1) * (j + 1))
                        got = sch.integrate(f, *box)
                        judge(variant, fam, key, 'u^%dv^%d' % (i, j), got, exact, list(box))
        # symmetric vs non-symmetric on a symmetric non-polynomial integrand
        acc.seen('ctor:sym-vs-nonsym')
        g = lambda x: np.exp(-(x[0] - x[1])**2) * np.cos(x[0] + x[1])
        v1, v2 = duf.integrate(g, 0, 1, 0, 1), dufs.integrate(g, 0, 1, 0, 1)
        acc.case('symnonsym2d|%s%r' % (fam, key), None)
        acc.worst_of('sym-vs-nonsym', abs(v1 - v2) / abs(v1))
        if abs(v1 - v2) > 1e-12 * abs(v1):
            acc.violation('duffy-sym-differs:2d', 'symmetric %.17g vs non-symmetric %.17g' % (v2, v1), {'family': fam, 'key': key})
        # ------------------------------------------------------------ 3-D
        n1 = len(s1.points)
        if n1 > 16:
            continue
        p3 = Q.ProductScheme3D(s1)
        boxes3 = []
        for _ in range(max(1, spec['boxes'] // 2)):
            hs = [side(rng) for _ in range(3)]
            os_ = [origin(rng, h) for h in hs]
            boxes3.append((os_[0], os_[0] + hs[0], os_[1], os_[1] + hs[1], os_[2], os_[2] + hs[2]))
        for hsp in SPECIAL_SIDES:
            os_ = [float(rng.choice([2, -1, 5, 0])), float(rng.choice([-1, 0, 3])), float(rng.choice([5, 1, -2]))]
            boxes3.append((os_[0], os_[0] + hsp, os_[1], os_[1] + hsp, os_[2], os_[2] + hsp))

        def mono3(box, i, j, k, flips=(0, 0, 0)):
            a, b, c, d_, e, g_ = box
            def f(x):
                u = (x[0] - a) / (b - a); v = (x[1] - c) / (d_ - c); w = (x[2] - e) / (g_ - e)
                if flips[0]: u = 1 - u
                if flips[1]: v = 1 - v
                if flips[2]: w = 1 - w
                return u**i * v**j * w**k
            return f

        def triples(dmax, cap):
            tr = [(i, j, k) for i in range(dmax + 1) for j in range(dmax + 1 - i) for k in range(dmax + 1 - i - j)]
            if len(tr) > cap:
                top = [t for t in tr if sum(t) == dmax]
                tr = sorted(set(rng.sample(tr, cap // 2)) | set(rng.sample(top, min(len(top), cap // 2))) | {(0, 0, 0)})
            return tr

        try:
            m3x = mirrored(acc, p3, ['mirror_x'], wit)
            m3yz = mirrored(acc, p3, ['mirror_y', 'mirror_z'], wit)
            t3z = mirrored(acc, Q.DuffySchemeTouch3D(p3), ['mirror_z'], wit)
        except _Missing:
            continue
        schemes3 = [('product3d', p3, deg, 'tensor'), ('mirror3d', m3x, deg, 'tensor'),
                    ('mirror3d', m3yz, deg, 'tensor'),
                    ('duffy3d-id', Q.DuffySchemeIdentical3D(p3, symmetric_xy=False), deg - 2, 'total'),
                    ('duffy3d-id-sym', Q.DuffySchemeIdentical3D(p3, symmetric_xy=True), deg - 2, 'sym'),
                    ('duffy3d-touch', Q.DuffySchemeTouch3D(p3), deg - 2, 'total'),
                    ('duffy3d-touch', t3z, deg - 2, 'total')]
        for variant, sch, dmax, kind in schemes3:
            acc.seen('ctor:' + variant)
            for box in boxes3:
                meas = (box[1] - box[0]) * (box[3] - box[2]) * (box[5] - box[4])
                if dmax < 0:
                    acc.count('duffy_on_low_degree_base_skipped')
                    continue
                got = sch.integrate(lambda x: np.ones(x.shape[1]), *box)
                judge(variant, fam, key, '1', got, meas, list(box))
                if kind == 'tensor':
                    tr = [(dmax, dmax, dmax), (dmax, 0, 0), (0, dmax, 0), (0, 0, dmax)] + triples(dmax, 24)
                else:
                    tr = triples(dmax, 40)
                for i, j, k in tr:
                    if kind == 'sym':
                        f1, f2 = mono3(box, i, j, k), mono3(box, j, i, k)
                        got = sch.integrate(lambda x: f1(x) + f2(x), *box)
                        exact = 2 * meas / ((i + 1) * (j + 1) * (k + 1))
                    else:
                        flips = (rng.random() < 0.3, rng.random() < 0.3, rng.random() < 0.3) if kind == 'tensor' else (0, 0, 0)
                        got = sch.integrate(mono3(box, i, j, k, flips), *box)
                        exact = meas / ((i + 1) * (j + 1) * (k + 1))
                    judge(variant, fam, key, 'u^%dv^%dw^%d' % (i, j, k), got, exact, list(box))
        # 3-D double mirror and symmetric agreement
        for name in ('mirror_x', 'mirror_y', 'mirror_z'):
            try:
                mm = mirrored(acc, p3, [name, name], wit)
            except _Missing:
                continue
            d = float(np.max(np.abs(mm.points - p3.points)))
            acc.case('double3-%s|%s%r' % (name, fam, key), None)
            if d > 4e-16 or not np.array_equal(mm.weights, p3.weights):
                acc.violation('double-mirror-differs:3d', '%s twice moves points by %.2e' % (name, d), {'family': fam, 'key': key})
        g3 = lambda x: np.exp(-(x[0] - x[1])**2 - x[2]) * np.cos(x[0] + x[1])
        v1 = Q.DuffySchemeIdentical3D(p3, symmetric_xy=False).integrate(g3, 0, 1, 0, 1, 0, 1)
        v2 = Q.DuffySchemeIdentical3D(p3, symmetric_xy=True).integrate(g3, 0, 1, 0, 1, 0, 1)
        acc.case('symnonsym3d|%s%r' % (fam, key), None)
        acc.worst_of('sym-vs-nonsym', abs(v1 - v2) / abs(v1))
        if abs(v1 - v2) > 1e-12 * abs(v1):
            acc.violation('duffy-sym-differs:3d', 'symmetric %.17g vs non-symmetric %.17g' % (v2, v1), {'family': fam, 'key': key})
        acc.sample({'base_rule': [fam, key], 'degree': deg, 'second_rule': [fam2, key2], 'boxes2d': boxes2[:1],
                    'boxes3d': boxes3[:1]}, 'rule', per_class=2)


def run_models(acc):
    """Log-singular model integrands: the Duffy schemes over log rules against closed forms."""
    import mpmath as mp
    import numpy as np
    from src import quadrature as Q
    mp.mp.dps = 30
    inner = lambda u: mp.log(1 + u * u) - 2 + 2 * u * mp.atan(1 / u)
    I_id = 2 * mp.quad(lambda u: (1 - u) * inner(u), [0, 1])
    I_touch = mp.quad(lambda s: s * inner(s), [0, 1]) + mp.quad(lambda s: (2 - s) * inner(s), [1, 2])
    models = []
    errs = {'2d': [], 'id': [], 'touch': []}
    for n in (1, 2, 3, 4, 5, 6, 7, 8, 9, 10, 11, 12):
        s = Q.log_quadrature_scheme(n, n)
        p2 = Q.ProductScheme2D(s, s)
        v = Q.DuffyScheme2D(p2, symmetric=False).integrate(lambda x: np.log(np.abs(x[0] - x[1])), 0, 1, 0, 1)
        errs['2d'].append((n, abs(v + 1.5) / 1.5))
        vs = Q.DuffyScheme2D(p2, symmetric=True).integrate(lambda x: np.log(np.abs(x[0] - x[1])), 0, 1, 0, 1)
        errs['2d'].append((n, abs(vs + 1.5) / 1.5))
        # scaled box: int_a^b int_a^b log|x-y| = h^2 (log h - 3/2)
        h = 0.37
        v = Q.DuffyScheme2D(p2, symmetric=False).integrate(lambda x: np.log(np.abs(x[0] - x[1])), 1.0, 1.0 + h, 1.0, 1.0 + h)
        errs['2d'].append((n, abs(v - h * h * (math.log(h) - 1.5)) / abs(h * h * (math.log(h) - 1.5))))
        if n <= 8:
            p3 = Q.ProductScheme3D(s)
            v = Q.DuffySchemeIdentical3D(p3, symmetric_xy=False).integrate(
                lambda x: np.log((x[0] - x[1])**2 + x[2]**2), 0, 1, 0, 1, 0, 1)
            errs['id'].append((n, abs(v - float(I_id)) / abs(float(I_id))))
            v = Q.DuffySchemeTouch3D(p3).integrate(lambda x: np.log((x[0] + x[1])**2 + x[2]**2), 0, 1, 0, 1, 0, 1)
            errs['touch'].append((n, abs(v - float(I_touch)) / abs(float(I_touch))))
    acc.seen('model:log-singular')
    acc.extra['model_errors'] = {k: [[n, float('%.3e' % e)] for n, e in v] for k, v in errs.items()}
    # 2-D: log|x-y| is in the exactness class of the Duffy-transformed log x log rule for every n >= 0
    for n, e in errs['2d']:
        acc.case('model2d|%d' % n, None)
        acc.worst_of('model-2d-log', e)
        if e > 1e-12:
            acc.violation('model-log-2d', 'int log|x-y| with Duffy(log(%d,%d)^2): rel. error %.2e' % (n, n, e), {'n': n})
    # 3-D: convergence to the closed form, monotone up to the rounding floor
    for name in ('id', 'touch'):
        seq = errs[name]
        for (n0, e0), (n1, e1) in zip(seq, seq[1:]):
            acc.case('model3d|%s|%d' % (name, n1), None)
            if e1 > max(e0, 1e-12) * 1.0000001:
                acc.violation('model-log-3d-not-monotone:' + name,
                              'error grows from %.2e (n=%d) to %.2e (n=%d)' % (e0, n0, e1, n1), {'model': name, 'n': n1})
        acc.worst_of('model-3d-%s-final' % name, seq[-1][1])
        if seq[-1][1] > 1e-8:
            acc.violation('model-log-3d-not-converged:' + name, 'error %.2e at n=%d' % (seq[-1][1], seq[-1][0]), {'model': name})
    acc.sample({'model_errors': acc.extra['model_errors']}, 'models')


def finalize(m, tier):
    n = 0
    me = None
    for e in m['extra']:
        n = max(n, e.get('n_base_rules', 0))
        me = e.get('model_errors', me)
    return {'base_rules': n, 'exhaustive': False, 'model_errors': me,
            'explanation': 'rules x constructors x degrees enumerated completely (3-D monomials of large rules sampled), boxes sampled'}
