"""C07 - pointwise evaluation of the single-layer operator on the boundary is correct."""
import math
import random

ID = 'C07'
TITLE = 'evaluate / evaluate_exact / evaluate_vector vs a graded 1-D reference; integral of evaluate == Galerkin entry'
LEVEL = 'exploration'
RULE = ('(a) a monitor on SingleLayerOperator.evaluate / evaluate_exact records the calls the real Sobolev and weighted-L2 estimators '
        'make on a Galerkin residual (Gauss and Slobodeckij nodes of all elements; reservoir sample); (b) a hostile generator calls the '
        'real functions at x_hat in {0, L, element end points, end point +- delta with delta from 1e-5*h to h, random, other sides, '
        'across corners and the seam} and t in {element start, end, start+eps, end+eps, random, T}. Oracle: 1-D graded reference of '
        'the analytically time-integrated kernel on our own curve geometry (two resolutions), error relative to max(|exact|,1e-9): 1e-8 '
        'in the closed element, 5e-4 at >= 1% of the element length outside, 2e-3 in between; evaluate_exact 1e-7; restricted to '
        'h_x^2/tau <= 16 and interior points > 1e-5 from the end points. evaluate_vector must be bit-equal to per-element evaluate. '
        '(c) the integral of evaluate over a test element (graded rule resolving the kinks, nodes > 2.5e-5 from break points, two '
        'resolutions) equals the Galerkin entry to 5e-5*sqrt(D_test*D_trial). distinct = distinct (curve, element, t, x_hat, function)')
ASSUMPTIONS = [
    'reference: stbemv/oracles/refint.pointwise (E1-based, graded towards the point and both ends); unconverged references are inconclusive cases',
    'zones measured in the parameter along the curve (through the seam if shorter)',
    'the integral clause has no tolerance in the property; 5e-5 of the diagonal scale (the budget of C03) is used',
]
REQUIRED = {t: ['fn:evaluate', 'fn:evaluate_exact', 'fn:evaluate_vector', 'zone:closed-element', 'zone:end-point', 'zone:near-layer', 'zone:far',
                'where:other-piece', 'where:across-seam', 'time:at-end', 'time:inside', 'time:after-end', 'source:estimator-nodes',
                'source:hostile', 'elem:tiny', 'history:other-curves-first', 'clause:integral', 'curve:UnitSquare', 'curve:PiSquare', 'curve:LShape', 'curve:Circle', 'curve:UnitInterval']
            for t in ('quick', 'thorough')}
TIMEOUT = {'quick': 1200, 'thorough': 7200}
CURVES = ['UnitSquare', 'PiSquare', 'LShape', 'Circle', 'UnitInterval']


def plan(tier, seed):
    specs = []
    for c in CURVES:
        for k in range(3 if tier == 'quick' else 24):
            specs.append({'name': 'mesh-%s-%d' % (c, k), 'curve': c, 'rseed': seed * 811 + k, 'n_ops': 14 + 8 * k if tier == 'quick' else 20 + 6 * k,
                          'n_hostile': 4000 if tier == 'quick' else 30000, 'n_est': 500 if tier == 'quick' else 4000,
                          'n_int': 6 if tier == 'quick' else 40, 'estimator': k == 0})
    return specs


def ekey(e):
    return (tuple(e.time_interval), tuple(e.space_interval))


def param_dist_outside(geo, xh, x0, x1):
    if x0 <= xh <= x1:
        return 0.0
    d = min(abs(xh - x0), abs(xh - x1))
    if geo.closed:
        d = min(d, abs(geo.length - xh + x0), abs(geo.length - x1 + xh))
    return d


def run_shard(spec, acc):
    import numpy as np
    from ..monitor import repo_frame, wrap_method
    from ..oracles import refint, resquad
    from ..workloads import slpairs
    from src.single_layer import SingleLayerOperator
    curve = spec['curve']
    rng = random.Random(spec['rseed'] * 43 + CURVES.index(curve))
    tg = rng.choice([[0, 1], [0, 0.5, 1]])
    ls, geo = slpairs.make_mesh(curve, spec['rseed'] * 47 + CURVES.index(curve), spec['n_ops'], time_grid=tg)
    mesh = ls.mesh
    gamma = mesh.gamma_space
    elems = list(mesh.leaf_elements)
    L, T = geo.length, tg[-1]
    wit0 = {'curve': curve, 'mesh': ls.spec, 'history': ls.history}
    acc.seen('curve:' + curve)
    # operators on the OTHER curves are built and used first, in the same process (leaves of different curves share parameter
    # intervals such as [0,1]): nothing they leave behind may influence the operator under test
    from src.mesh import MeshParametrized
    from src import parametrization as P
    for other in CURVES:
        if other == curve:
            continue
        om = MeshParametrized(getattr(P, other)())
        if other == 'LShape':
            for oe in list(om.leaf_elements):
                if oe.h_x > 1:
                    om.refine_space(oe)
        osl = SingleLayerOperator(om)
        oel = list(om.leaf_elements)
        osl._init_elems(oel)
        osl.evaluate(oel[0], 1.0, oel[-1].space_interval[0], np.asarray(om.gamma_space.eval(oel[-1].space_interval[0])).reshape(2, 1))
    acc.seen('history:other-curves-first')
    SL = SingleLayerOperator(mesh)
    SL._init_elems(elems)
    cases = []   # (source, fn, elem, t, xh)

    # ---------------- (a) points the real estimators request
    if spec['estimator'] and geo.closed and len(elems) <= 60:
        from src.error_estimator import ErrorEstimator
        A = SL.bilform_matrix(elems, elems, use_mp=False)
        rhs = np.array([e.h_t * e.h_x for e in elems])
        Phi = np.linalg.solve(A, rhs)
        EE = ErrorEstimator(mesh, N_poly=(3, 3, 3, 3))
        res = EE.residual(elems, Phi, SL, None, lambda t, xy: 1)
        seen = [0]
        pool = []

        def after(mon, token, args, kwargs, result):
            seen[0] += 1
            item = ('estimator-nodes', 'evaluate', args[1], float(args[2]), float(args[3]), result)
            if len(pool) < spec['n_est']:
                pool.append(item)
            else:
                j = rng.randrange(seen[0])
                if j < spec['n_est']:
                    pool[j] = item
        mon = wrap_method(SingleLayerOperator, 'evaluate', after=after)
        try:
            sub = elems if len(elems) <= 10 else rng.sample(elems, 10)
            EE.estimate_weighted_l2(sub, res, use_mp=False)
            for e in sub[:3]:  # the per-element entry points (estimate_sobolev itself needs the complete leaf list)
                EE.sobolev_time(e, res)
                EE.sobolev_space(e, res)
        except Exception as ex:
            fr = repo_frame(ex)
            if fr is None:
                raise
            acc.violation('estimator-raised:%s:%s' % (fr[0], type(ex).__name__), '%s: raised at %s:%d' % (curve, fr[1], fr[2]), wit0)
        finally:
            mon.uninstall()
        acc.count('evaluate_calls_by_estimators', seen[0])
        cases += pool
    # ---------------- (b) hostile generator
    for _ in range(spec['n_hostile']):
        e = elems[rng.randrange(len(elems))]
        t0, t1 = e.time_interval
        x0, x1 = e.space_interval
        h = e.h_x
        tk = rng.choice(['at-end', 'inside', 'after-end', 'after-end', 'start+eps', 'T'])
        if tk == 'at-end':
            t = t1
        elif tk == 'inside':
            t = t0 + rng.uniform(0.05, 1.0) * (t1 - t0)
        elif tk == 'after-end':
            t = t1 + rng.choice([1e-3, 0.01, 0.1, 0.5, rng.random()]) * max(T - t1, e.h_t)
        elif tk == 'start+eps':
            t = t0 + rng.choice([0.02, 0.1, 0.3]) * (t1 - t0)
        else:
            t = float(T)
        if t <= t0:
            continue
        xk = rng.choice(['in', 'in', 'end', 'near', 'near', 'far', 'other', 'zeroL', 'seam'])
        if xk == 'in':
            xh = x0 + rng.uniform(0.0, 1.0) * h
        elif xk == 'end':
            xh = rng.choice([x0, x1])
        elif xk == 'near':
            delta = h * 10**rng.uniform(-5, 0)
            xh = rng.choice([x0 - delta, x1 + delta, x0 + delta, x1 - delta])
        elif xk == 'far':
            xh = rng.uniform(0, L)
        elif xk == 'other':
            p = rng.randrange(len(geo.starts) - 1)
            xh = rng.uniform(geo.starts[p], geo.starts[p + 1])
        elif xk == 'zeroL':
            xh = rng.choice([0.0, L])
        else:
            xh = rng.choice([rng.uniform(0, min(L, 2 * h)), L - rng.uniform(0, min(L, 2 * h))])
        if geo.closed and (xh < 0 or xh > L):
            xh = xh % L
        xh = min(max(xh, 0.0), L)
        cases.append(('hostile', 'evaluate', e, t, xh, None))
        if not geo.circle:
            pj = geo.piece_of(x0, x1)
            if geo.starts[pj] <= xh <= geo.starts[pj + 1]:
                cases.append(('hostile', 'evaluate_exact', e, t, xh, None))
    # ---------------- (b') very short elements (space level 9-14 of a side), built like the estimators build their children
    from src.hierarchical_error_estimator import DummyElement
    from src.mesh import Vertex
    side0 = geo.starts[1] if not geo.circle else L / 4
    tiny = []
    for _ in range(max(20, spec['n_hostile'] // 40)):
        k = rng.randint(9, 14)
        h = side0 * 2.0**-k
        p = rng.randrange(len(geo.starts) - 1)
        plen = geo.starts[p + 1] - geo.starts[p]
        x0 = geo.starts[p] + rng.choice([0.0, plen - h, rng.randrange(int(plen / h)) * h])
        x0 = min(x0, geo.starts[p + 1] - h)
        ht = max(h * h / rng.choice([1.0, 4.0, 16.0]), 1e-12)
        t0 = rng.choice([0.0, 0.25, 0.5])
        vs = [Vertex(t0, x0, -1), Vertex(t0, x0 + h, -1), Vertex(t0 + ht, x0 + h, -1), Vertex(t0 + ht, x0, -1)]
        e = DummyElement(vs, gamma.pw_gamma[p])
        tiny.append(e)
    SL._init_elems(tiny)
    for e in tiny:
        t0, t1 = e.time_interval
        x0, x1 = e.space_interval
        h = e.h_x
        for _ in range(6):
            t = rng.choice([t1, t0 + 0.5 * (t1 - t0), t1 + (t1 - t0) * rng.choice([0.5, 2.0, 10.0])])
            xk = rng.choice(['in', 'end', 'near', 'near-in'])
            if xk == 'in':
                xh = x0 + rng.uniform(0.05, 0.95) * h
            elif xk == 'end':
                xh = rng.choice([x0, x1])
            elif xk == 'near':
                d_ = h * 10**rng.uniform(-3, 0.5)
                xh = rng.choice([x0 - d_, x1 + d_])
            else:
                d_ = max(h * 10**rng.uniform(-3, -0.5), 2e-5)
                xh = rng.choice([x0 + d_, x1 - d_])
            if geo.closed:
                xh = xh % L
            xh = min(max(xh, 0.0), L)
            cases.append(('hostile', 'evaluate', e, t, xh, None))
            acc.seen('elem:tiny')
    # ---------------- judge
    n_unconv = 0
    for source, fn, e, t, xh, recorded in cases:
        t0, t1 = e.time_interval
        x0, x1 = e.space_interval
        if t <= t0:
            continue
        tau = min(v for v in (t - t0, t - t1) if v > 0)
        if e.h_x**2 / tau > 16:
            acc.count('out_of_scope_parabolic_ratio')
            continue
        inside = x0 <= xh <= x1
        if inside and xh not in (x0, x1) and (xh - x0 <= 1e-5 or x1 - xh <= 1e-5):
            acc.count('out_of_scope_1e-5_from_end')
            continue
        w = dict(wit0, elem=ekey(e), t=t, x_hat=xh, fn=fn)
        try:
            if recorded is not None:
                val = recorded
            elif fn == 'evaluate':
                x = np.asarray(gamma.eval(xh), dtype=float).reshape(2, 1)
                val = SL.evaluate(e, t, xh, x)
            else:
                val = SL.evaluate_exact(e, t, xh)
        except Exception as ex:
            fr = repo_frame(ex)
            if fr is None:
                raise
            acc.violation('evaluate-raised:%s:%s' % (fn, type(ex).__name__), '%s: %s raised %s at %s:%d' % (curve, fn, type(ex).__name__, fr[1], fr[2]), w)
            continue
        if val is None or np.ndim(val) != 0 or not np.isfinite(val):
            acc.violation('evaluate-not-a-finite-number:' + fn, '%s: %s returned %r' % (curve, fn, val), w)
            continue
        # which piece carries x_hat: at a break point either adjacent piece is the same physical point
        pj = geo.piece_of(x0, x1)
        if geo.starts[pj] <= xh <= geo.starts[pj + 1]:
            xp = pj
        else:
            xp = [i for i in range(len(geo.starts) - 1) if geo.starts[i] <= xh <= geo.starts[i + 1]][0]
        ref, dis = refint.pointwise2(geo, t, xh, (t0, t1), (x0, x1), x_piece=xp)
        denom = max(abs(ref), 1e-9)
        if dis > 1e-10 * denom:
            n_unconv += 1
            continue
        d_out = param_dist_outside(geo, xh, x0, x1)
        if fn == 'evaluate_exact':
            tol, zone = 1e-7, 'exact'
        elif d_out == 0.0:
            tol, zone = 1e-8, ('end-point' if xh in (x0, x1) else 'closed-element')
        elif d_out >= 0.01 * e.h_x:
            tol, zone = 5e-4, 'far'
        else:
            tol, zone = 2e-3, 'near-layer'
        err = abs(float(val) - ref) / denom
        acc.case('%s|%r|%r|%r|%s' % (curve, ekey(e), t, xh, fn), None)
        acc.seen('fn:' + fn)
        acc.seen('source:' + source)
        if fn == 'evaluate':
            acc.seen('zone:' + zone)
            if zone == 'end-point':
                acc.seen('zone:closed-element')
        if xp != pj:
            acc.seen('where:other-piece')
        if geo.closed and d_out > 0 and d_out < min(abs(xh - x0), abs(xh - x1)):
            acc.seen('where:across-seam')
        acc.seen('time:' + ('at-end' if t == t1 else ('inside' if t < t1 else 'after-end')))
        acc.worst_of('%s/%s err/tol' % (fn, zone), err / tol)
        if not (err <= tol):
            acc.violation('evaluate-inexact:%s:%s' % (fn, zone),
                          '%s: %s(elem %r, t=%r, x_hat=%r) = %.17g, reference %.17g, rel. error %.3e (zone %s, tolerance %g)' %
                          (curve, fn, ekey(e), t, xh, float(val), ref, err, zone, tol), dict(w, computed=float(val), reference=ref))
        acc.sample({'curve': curve, 'fn': fn, 'zone': zone, 'elem': ekey(e), 't': t, 'x_hat': xh, 'computed': float(val), 'reference': ref},
                   fn + zone, per_class=1)
    acc.count('reference_not_converged', n_unconv)
    if cases and n_unconv > len(cases) // 5:
        acc.inconclusive_because('pointwise reference did not converge on %d of %d cases' % (n_unconv, len(cases)))
    # ---------------- evaluate_vector == per-element evaluate
    for _ in range(40):
        t = rng.uniform(0, T)
        xh = rng.choice([rng.uniform(0, L), 0.0, L, rng.choice(elems).space_interval[0]])
        try:
            vec = SL.evaluate_vector(t, xh)
            x = gamma.eval(xh)
            single = [SL.evaluate(e, t, xh, x) for e in elems]
        except AssertionError as ex:
            fr = repo_frame(ex)
            if fr is None:
                raise
            acc.count('evaluate_vector_precondition_assert')
            continue
        acc.case('%s|vec|%r|%r' % (curve, t, xh), None)
        acc.seen('fn:evaluate_vector')
        if len(vec) != len(elems) or any(float(a) != float(b) for a, b in zip(vec, single)):
            acc.violation('evaluate-vector-differs', '%s: evaluate_vector(t=%r, x_hat=%r) differs from per-element evaluate' % (curve, t, xh),
                          dict(wit0, t=t, x_hat=xh))
    # ---------------- (c) integral of evaluate over a test element == Galerkin entry
    pairs = []
    big = [e for e in elems if e.h_x >= 8e-3]
    for _ in range(spec['n_int'] * 4):
        if len(pairs) >= spec['n_int'] or not big:
            break
        te, tr = rng.choice(big), rng.choice(big)
        if te.time_interval[1] <= tr.time_interval[0]:
            continue
        pairs.append((te, tr))
    for te, tr in pairs:
        brk_t = list(tr.time_interval)
        brk_x = list(tr.space_interval)
        vals = []
        try:
            for (n, dt, dx) in ((4, 4, 3), (6, 6, 3)):
                Tn, Xn, Wn = resquad.element_rule(te.time_interval, te.space_interval, brk_t, brk_x, n=n, depth_t=dt, depth_x=dx)
                G = te.gamma_space(Xn)
                s = 0.0
                for k in range(len(Tn)):
                    s += Wn[k] * SL.evaluate(tr, float(Tn[k]), float(Xn[k]), G[:, k].reshape(2, 1))
                vals.append(s)
            entry = SL.bilform(tr, te)
        except Exception as ex:
            fr = repo_frame(ex)
            if fr is None:
                raise
            acc.violation('integral-clause-raised:%s:%s' % (fr[0], type(ex).__name__), '%s: raised at %s:%d' % (curve, fr[1], fr[2]),
                          dict(wit0, test=ekey(te), trial=ekey(tr)))
            continue
        D = (refint.diagonal(geo, te.h_t, te.h_x) * refint.diagonal(geo, tr.h_t, tr.h_x))**0.5
        err = abs(vals[1] - entry) / D
        acc.case('%s|int|%r|%r' % (curve, ekey(te), ekey(tr)), None)
        acc.seen('clause:integral')
        acc.worst_of('integral clause err/(5e-5 D)', err / 5e-5)
        acc.worst_of('integral clause coarse-fine/(5e-5 D)', abs(vals[0] - vals[1]) / D / 5e-5)
        if not (err <= 5e-5):
            acc.violation('integral-of-evaluate-differs-from-entry',
                          '%s: int_test (V 1_trial) = %.15g, bilform = %.15g, difference %.3e of sqrt(D_test D_trial)' % (curve, vals[1], entry, err),
                          dict(wit0, test=ekey(te), trial=ekey(tr)))
