"""C13 - the symmetric part of the single-layer matrix is positive definite."""
import random

ID = 'C13'
TITLE = 'lambda_min of the diagonally scaled symmetric part > 0.01 (matrices and 4x4 child blocks)'
LEVEL = 'exploration'
RULE = ('the real bilform_matrix (test == trial) is assembled on random aspect-bounded meshes of the four closed curves and the '
        'open interval (both switch values), and for every leaf of a sample the 4x4 block on its four children (real '
        'DummyElement.uniform_refinement) as the hierarchical estimator builds it. Oracle: with D = diag(A), the smallest eigenvalue '
        'of D^-1/2 (A+A^T)/2 D^-1/2 (LAPACK eigvalsh) exceeds 0.01, cross-checked by a Cholesky factorisation of sym(A) - 0.01 D; '
        'the three scaling factors c^T S c of the hierarchical estimator are positive. distinct = distinct (curve, mesh, switch) '
        'matrices + distinct child blocks')
ASSUMPTIONS = ['meshes with aspect h_x^2/h_t <= 32, up to ~120 elements (quick) / ~500 (thorough)']
REQUIRED = {t: ['matrix:full', 'matrix:child-block', 'switch:exact', 'switch:quad', 'slabs:several', 'mesh:graded-in-space', 'matrix:pool-path',
                'curve:UnitSquare', 'curve:PiSquare', 'curve:LShape', 'curve:Circle', 'curve:UnitInterval']
            for t in ('quick', 'thorough')}
TIMEOUT = {'quick': 900, 'thorough': 7200}
CURVES = ['UnitSquare', 'PiSquare', 'LShape', 'Circle', 'UnitInterval']


def plan(tier, seed):
    specs = []
    for c in CURVES:
        for k in range(3 if tier == 'quick' else 8):
            specs.append({'name': 'mesh-%s-%d' % (c, k), 'curve': c, 'rseed': seed * 499 + k,
                          'n_ops': [12, 40, 90][k] if tier == 'quick' else 40 + 55 * k, 'blocks': 30 if tier == 'quick' else 150})
    # meshes graded in space only (tall, thin elements) towards the seam, a corner or a random point, asymmetrically:
    # the situation of an adaptive loop resolving a corner singularity; neighbouring entries are strongly coupled there
    for c in CURVES:
        for k in ([0, 1, 2, 3, 7, 11] if tier == 'quick' else range(16)):
            specs.append({'name': 'graded-%s-%d' % (c, k), 'curve': c, 'rseed': seed * 503 + k, 'graded': k, 'blocks': 12 if tier == 'quick' else 40})
    return specs


def graded_mesh(curve, k, rng):
    from ..oracles.refint import Geo
    from ..workloads.meshes import LockStep
    geo = Geo(curve)
    L = geo.length
    ls = LockStep({'curve': curve, 'time_grid': [0, 1] if k % 2 == 0 else [0, 0.5, 1]})
    target = [0.0, L, geo.starts[1] if len(geo.starts) > 2 else L / 2, rng.uniform(0, L)][(k // 2) % 4]
    lv_left, lv_right = rng.randint(2, 6), rng.randint(2, 6)
    if k % 4 == 0:
        lv_left, lv_right = 3 + k // 4 % 3, 4 + k // 4 % 3     # one level coarser on the x >= target side

    def leaf_at(side):
        best = None
        for e in ls.mesh.leaf_elements:
            x0, x1 = e.space_interval
            if side == 'right':   # the element that starts at the target (through the seam: starts at 0 when target == L)
                t0 = 0.0 if target >= L else target
                if x0 <= t0 < x1:
                    best = e if best is None or e.time_interval[0] < best.time_interval[0] else best
            else:                 # the element that ends at the target (through the seam: ends at L when target == 0)
                t1 = L if target <= 0 else target
                if x0 < t1 <= x1:
                    best = e if best is None or e.time_interval[0] < best.time_interval[0] else best
        return best
    if k % 4 == 3:
        # tall and short elements alternating along the curve: uniform space refinement, then every other leaf bisected in time
        for _ in range(2 + (k // 4) % 3):
            ls.uniform_space()
        for j, e in enumerate(sorted(ls.leaves(), key=lambda e: (e.time_interval, e.space_interval))):
            if j % 2 == 0 and not e.children and e.h_x**2 / (e.h_t / 2) <= 32:
                ls.bisect(e, 0)
        return ls, geo
    for side, lv in (('right', lv_left), ('left', lv_right)):
        for _ in range(40):
            e = leaf_at(side)
            if e is None or e.level_space >= lv or e.h_x < 1e-3:
                break
            ls.bisect(e, 1)
    return ls, geo


def scaled_lambda_min(A):
    import numpy as np
    S = 0.5 * (A + A.T)
    d = np.diag(A)
    if not np.all(np.isfinite(A)) or np.any(d <= 0):
        return float('-inf'), False
    s = 1.0 / np.sqrt(d)
    M = S * s[:, None] * s[None, :]
    lam = float(np.linalg.eigvalsh(M)[0])
    try:
        np.linalg.cholesky(S - 0.01 * np.diag(d))
        chol = True
    except np.linalg.LinAlgError:
        chol = False
    return lam, chol


def run_shard(spec, acc):
    import numpy as np
    from ..monitor import repo_frame
    from ..workloads import slpairs
    from src.single_layer import SingleLayerOperator
    from src.hierarchical_error_estimator import DummyElement
    curve = spec['curve']
    rng = random.Random(spec['rseed'] * 37 + CURVES.index(curve))
    tg = rng.choice([[0, 1], [0, 0.5, 1], [0, 1, 2]])
    if 'graded' in spec:
        ls, geo = graded_mesh(curve, spec['graded'], rng)
        tg = ls.time_grid
        acc.seen('mesh:graded-in-space')
    else:
        ls, geo = slpairs.make_mesh(curve, spec['rseed'] * 41 + CURVES.index(curve), spec['n_ops'], time_grid=tg,
                                    custom_grid=rng.random() < 0.25)
    elems = list(ls.mesh.leaf_elements)
    wit0 = {'curve': curve, 'mesh': ls.spec, 'history': ls.history, 'n_elements': len(elems)}
    acc.seen('curve:' + curve)
    if len({e.time_interval for e in elems}) > 1:
        acc.seen('slabs:several')
    for exact in (False, True):
        sw = 'exact' if exact else 'quad'
        SL = SingleLayerOperator(ls.mesh, pw_exact=exact)
        try:
            A = SL.bilform_matrix(elems, elems, use_mp=False)
        except Exception as ex:
            fr = repo_frame(ex)
            if fr is None:
                raise
            acc.violation('assembly-raised:%s:%s' % (fr[0], type(ex).__name__), '%s: raised at %s:%d' % (curve, fr[1], fr[2]), wit0)
            continue
        if len(elems) >= 17 and len(elems) * len(elems) >= 100 and not exact:
            # the matrix as the pool path delivers it, with one worker (chunks of several columns per task)
            import multiprocessing as mp
            real_cpu = mp.cpu_count
            mp.cpu_count = lambda: 1
            try:
                Ap = SL.bilform_matrix(elems, elems, use_mp=True)
            finally:
                mp.cpu_count = real_cpu
            lam_p, chol_p = scaled_lambda_min(Ap)
            acc.case('%s|%d|%s|full-pool' % (curve, spec['rseed'], sw), None)
            acc.seen('matrix:pool-path')
            if not (lam_p > 0.01) or not chol_p:
                acc.violation('symmetric-part-not-definite:full-pool:' + sw, '%s: lambda_min = %r for the matrix assembled by the process pool (%d elements; serial: %r)'
                              % (curve, lam_p, len(elems), scaled_lambda_min(A)[0]), dict(wit0, pw_exact=exact, path='pool'))
        lam, chol = scaled_lambda_min(A)
        acc.case('%s|%d|%s|full' % (curve, spec['rseed'], sw), None)
        acc.seen('matrix:full')
        acc.seen('switch:' + sw)
        acc.worst_of('1/lambda_min full (%s)' % sw, 1.0 / lam if lam > 0 else float('inf'))
        if not (lam > 0.01) or not chol:
            acc.violation('symmetric-part-not-definite:full:' + sw,
                          '%s: lambda_min(D^-1/2 sym(A) D^-1/2) = %r on %d elements (Cholesky of sym(A)-0.01D %s)' %
                          (curve, lam, len(elems), 'succeeds' if chol else 'fails'), dict(wit0, pw_exact=exact, lambda_min=lam))
        sub = elems if len(elems) <= spec['blocks'] else rng.sample(elems, spec['blocks'])
        quarters = DummyElement.uniform_refinement(sub)
        for e, qs in zip(sub, quarters):
            S = SL.bilform_matrix(qs, qs)
            lam, chol = scaled_lambda_min(S)
            acc.case('%s|%d|%s|%r' % (curve, spec['rseed'], sw, (e.time_interval, e.space_interval)), None)
            acc.seen('matrix:child-block')
            acc.worst_of('1/lambda_min child block (%s)' % sw, 1.0 / lam if lam > 0 else float('inf'))
            w = dict(wit0, pw_exact=exact, elem=(e.time_interval, e.space_interval))
            if not (lam > 0.01) or not chol:
                acc.violation('symmetric-part-not-definite:child-block:' + sw, '%s: 4x4 child block has lambda_min %r' % (curve, lam), w)
            for coefs in ([1, 1, -1, -1], [1, -1, 1, -1], [1, -1, -1, 1]):
                c = np.array(coefs, dtype=float)
                sc = float(c @ (S @ c))
                if not (sc > 0):
                    acc.violation('hierarchical-scaling-not-positive:' + sw, '%s: c^T S c = %r for c=%r' % (curve, sc, coefs), w)
    acc.sample({'curve': curve, 'time_grid': tg, 'n_elements': len(elems)}, curve)
