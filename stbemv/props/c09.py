"""C09 - Sobolev and weighted-L2 indicators equal their definition on every patch."""
import math
import random
from fractions import Fraction as Fr

ID = 'C09'
TITLE = 'Sobolev (H^1/2 in space, H^1/4 in time) and weighted-L2 indicators vs their definition; shortcut, pool, symmetry'
LEVEL = 'exploration'
RULE = ('the real ErrorEstimator.sobolev_space / sobolev_time / weighted_l2 / estimate_sobolev / estimate_weighted_l2 run on random '
        'meshes of the four closed curves with residuals from a parametric family. Oracles: (a) every per-neighbour value returned is '
        'compared with an independent evaluation of the double integral on the geometric patch (union x intersection from rectangle '
        'geometry, seam identified): exact rational closed forms for p(t)*q(x_hat) on straight same-piece patches within the exactness '
        'range of the order (1e-8, orders 1..19), graded reference with Euclidean distances for trigonometric residuals in embedded '
        'coordinates on corner, seam and circle patches (1e-4 at orders 17, 19); (b) the neighbours used are exactly the geometric '
        'neighbours; (c) a quarter turn of the unit square applied to mesh and residual permutes the indicators (1e-10); (d) '
        'estimate_sobolev (neighbour-symmetry shortcut) equals the per-element sums (1e-12), pool with 1..16 workers equals serial bit for '
        'bit, weighted_l2 equals h_t^-1/2, h_x^-1 times the exact squared L2 norm. distinct = distinct (curve, mesh, element, neighbour, order, residual)')
RULE += ' ' + 'In half of the cases the H^1/4 (time) and H^1/2 (space) orders differ and the polynomial degrees sit at the top of each exactness range.'
RULE += ' ' + 'One shard per curve refines one spot in space down to the shortest elements the quadrature accepts (1e-5 < h_x <= 2e-5) and judges those leaves at orders 13-19.'
ASSUMPTIONS = [
    'exactness range: Slobodeckij order N is exact for degree <= (N-1)/2, the outer Gauss order N_outer integrates degree <= N_outer',
    'general smooth residuals: 1e-4 at order >= 17 as stated in the property; lower orders are not judged for them; the trigonometric '
    'family has wave vectors scaled to the curve (phase variation <= ~2 rad across the curve): the quadrature error is spectral in '
    '(wave number x patch size), and a half-circle patch with |k| ~ 2.4 reaches 1.9e-4 at order 17 on correct code',
    'the symmetry clause is exercised for the quarter turn of the unit square (dyadic parameters, so the rotated mesh has bit-exact images)',
]
REQUIRED = {t: ['ind:sobolev_space', 'ind:sobolev_time', 'ind:weighted_l2', 'patch:same-piece', 'patch:corner', 'patch:seam', 'patch:circle',
                'patch:circle-seam', 'patch:self', 'residual:polynomial', 'residual:trigonometric', 'order:1', 'order:19', 'rel:shortcut',
                'rel:pool', 'rel:symmetry', 'rel:neighbour-set', 'rel:list-order', 'rel:pool-history', 'orders:time!=space', 'mesh:deep-in-space', 'curve:UnitSquare', 'curve:PiSquare', 'curve:LShape', 'curve:Circle']
            for t in ('quick', 'thorough')}
TIMEOUT = {'quick': 1500, 'thorough': 7200}
CURVES = ['UnitSquare', 'PiSquare', 'LShape', 'Circle']


def plan(tier, seed):
    specs = []
    for c in CURVES:
        for k in range(3 if tier == 'quick' else 10):
            specs.append({'name': 'patch-%s-%d' % (c, k), 'mode': 'patch', 'curve': c, 'rseed': seed * 641 + k, 'n_ops': 8 + 10 * k if tier == 'quick' else 10 + 8 * k,
                          'n_elem': 10 if tier == 'quick' else 40, 'n_trig': 5 if tier == 'quick' else 25})
        specs.append({'name': 'patch-deep-%s' % c, 'mode': 'patch', 'curve': c, 'rseed': seed * 653 + 5, 'n_ops': 6, 'deep': True, 'n_elem': 8 if tier == 'quick' else 20, 'n_trig': 0})
        specs.append({'name': 'rel-%s' % c, 'mode': 'rel', 'curve': c, 'rseed': seed * 643, 'n_ops': 16 if tier == 'quick' else 40,
                      'workers': [1, 3, 16] if tier == 'quick' else [1, 2, 3, 5, 8, 13, 16]})
    specs.append({'name': 'symmetry', 'mode': 'sym', 'rseed': seed * 647, 'n': 3 if tier == 'quick' else 12})
    return specs


def ekey(e):
    return (tuple(e.time_interval), tuple(e.space_interval))


# ------------------------------------------------------------------ residual family
def poly_residual(ct, cx, tm=0.0, xm=0.0, xs=1.0):
    """r(t, x_hat) = p(t - tm) q((x_hat - xm)/xs), coefficients low->high (floats); evaluated in the centred variables."""
    import numpy as np

    def r(t, x_hat, gamma):
        t = np.asarray(t, dtype=float) - tm
        x = (np.asarray(x_hat, dtype=float) - xm) / xs
        return np.polyval(ct[::-1], t) * np.polyval(cx[::-1], x)
    return r


def trig_residual(a, b, c, w):
    import numpy as np

    def F(t, X):
        return np.cos(a * X[0] + b * X[1] + 0.3) * (1 + c * np.asarray(t)) + w * np.sin(2 * np.asarray(t)) * X[0]

    def r(t, x_hat, gamma):
        return F(np.asarray(t, dtype=float), gamma(np.asarray(x_hat, dtype=float)))
    return r, F


def poly_int_sq(c, a, b):
    """int_a^b p(x)^2 dx exactly (Fractions)."""
    n = len(c)
    sq = [Fr(0)] * (2 * n - 1)
    for i, ci in enumerate(c):
        for j, cj in enumerate(c):
            sq[i + j] += ci * cj
    return sum(co * (b**(k + 1) - a**(k + 1)) / (k + 1) for k, co in enumerate(sq))


# ------------------------------------------------------------------ references for general residuals
def ref_h12_patch(geo, F, t, segs, n=10, depth=8):
    """int int over (union of segs)^2 of (F(t,P(x)) - F(t,P(y)))^2 / |P(x)-P(y)|^2, segs = [(piece, a, b), ...] consecutive along the curve."""
    import numpy as np
    from ..oracles.refint import graded
    # union parameter s in [0, total]; map to (piece, param)
    lens = [b - a for _, a, b in segs]
    offs = [0.0]
    for l in lens:
        offs.append(offs[-1] + l)

    def pts(s):
        s = np.asarray(s, dtype=float)
        out = np.zeros((2, len(s)))
        for k, (pc, a, b) in enumerate(segs):
            m = (s >= offs[k]) & (s <= offs[k + 1]) if k == 0 else (s > offs[k]) & (s <= offs[k + 1])
            if np.any(m):
                out[:, m] = geo.point(pc, a + (s[m] - offs[k]))
        return out
    marks = offs
    ox, ow = graded(0.0, offs[-1], marks, n, depth)
    PX = pts(ox)
    FX = F(t, PX)
    total = 0.0
    for k in range(len(ox)):
        iy, iw = graded(0.0, offs[-1], marks + [ox[k]], n, depth)
        PY = pts(iy)
        r2 = (PX[0, k] - PY[0])**2 + (PX[1, k] - PY[1])**2
        total += ow[k] * float(np.sum(iw * (FX[k] - F(t, PY))**2 / r2))
    return total


def ref_h14_time(Fx, ta, tb, n=10, depth=9):
    """int int_(ta,tb)^2 (f(t)-f(s))^2 |t-s|^(-3/2) for f = Fx(t) (vectorised in t)."""
    import numpy as np
    from ..oracles.refint import graded
    ot, ow = graded(ta, tb, [ta, tb], n, depth)
    ft = Fx(ot)
    total = 0.0
    for k in range(len(ot)):
        s, sw = graded(ta, tb, [ta, tb, ot[k]], n, depth)
        total += ow[k] * float(np.sum(sw * (ft[k] - Fx(s))**2 / np.abs(ot[k] - s)**1.5))
    return total


# ------------------------------------------------------------------ patch shard
def run_patch(spec, acc):
    import numpy as np
    from ..monitor import repo_frame
    from ..oracles import refmesh as rm
    from ..oracles import slobo
    from ..oracles.refint import Geo, gl
    from ..workloads.meshes import LockStep
    from src.error_estimator import ErrorEstimator
    curve = spec['curve']
    rng = random.Random(spec['rseed'] * 53 + CURVES.index(curve))
    geo = Geo(curve)
    ms = {'curve': curve, 'time_grid': rng.choice([[0, 1], [0, 0.5, 1]])}
    if curve == 'LShape' and rng.random() < 0.5:
        ms['presplit_long'] = True
    ls = LockStep(ms)
    for _ in range(spec['n_ops']):
        L = ls.leaves()
        ls.apply(('b', rng.randrange(len(L)), rng.randrange(2)))
    deep_leaves = []
    if spec.get('deep'):
        # one spot refined in space down to the shortest elements the quadrature accepts (1e-5 < h_x <= 2e-5): absolute floors
        # hidden in the seminorm routines show only there, and only at high order
        import math as _m
        # at the start of the parametrisation: elsewhere the node coordinates a + h*p themselves are only good to eps*|a|/h ~ 1e-10 of
        # the element, which the difference quotients amplify beyond the 1e-8 asked for polynomials (measured 7e-7 at x_hat = 7)
        tgt = 0.0
        for _ in range(40):
            cand = [e for e in ls.leaves() if e.space_interval[0] == tgt]
            e0 = min(cand, key=lambda e: (e.h_x, e.time_interval[0]))
            if e0.h_x / 2 <= 1.0001e-5:
                break
            ls.apply(('b', ls.leaves().index(e0), 1))
        # the shortest leaves at the deep spot; the closure also shortens leaves on the other side of the seam (x_hat ~ L), whose node
        # coordinates are ill-conditioned in the sense above: they are not judged in this shard
        deep_leaves = sorted([e for e in ls.leaves() if e.space_interval[1] <= 1e-3], key=lambda e: e.h_x)[:4]
        acc.seen('mesh:deep-in-space')
    mesh = ls.mesh
    elems = list(mesh.leaf_elements)
    by_idx = {e.glob_idx: e for e in elems}
    wit0 = {'curve': curve, 'mesh': ms, 'history': ls.history}
    acc.seen('curve:' + curve)
    Lc = geo.length
    sample = elems if len(elems) <= spec['n_elem'] else rng.sample(elems, spec['n_elem'])
    if spec.get('deep'):
        sample = [e for e in sample if e not in deep_leaves and e.h_x >= 1e-3][:max(2, spec['n_elem'] - 4)] + deep_leaves
    orders = [1, 3, 5, 7, 9, 11, 13, 15, 17, 19]

    def patch_kind(e, nb):
        if nb is e:
            return 'self'
        if geo.circle:
            seam = {e.space_interval[0], nb.space_interval[0]} >= {0} and Lc in (e.space_interval[1], nb.space_interval[1]) and \
                not (e.space_interval[1] == nb.space_interval[0] or nb.space_interval[1] == e.space_interval[0])
            return 'circle-seam' if seam else 'circle'
        pe, pn = geo.piece_of(*e.space_interval), geo.piece_of(*nb.space_interval)
        if pe == pn:
            return 'same-piece'
        if e.space_interval[1] == nb.space_interval[0] or nb.space_interval[1] == e.space_interval[0]:
            return 'corner'
        return 'seam'

    n_trig = 0
    for e in sample:
        r = rm.rect_of(e)
        N = rng.choice(orders)
        if e is sample[0]:
            N = 1
        if e is sample[-1]:
            N = 19
        if e in deep_leaves[:-1]:
            N = rng.choice([17, 19, 13])
        N_outer = rng.choice([o for o in orders if o >= 3])
        # the H^{1/4} (time) and H^{1/2} (space) orders are separate arguments: different in half of the cases, and then the degrees are
        # taken at the top of each exactness range, so that an order handed to the wrong rule shows
        N_time = N if rng.random() < 0.5 else rng.choice(orders)
        dt = rng.randint(0, min((N_time - 1) // 2, N_outer // 2))
        dx = rng.randint(0, min((N - 1) // 2, N_outer // 2))
        if N_time != N:
            acc.seen('orders:time!=space')
            dt = min((N_time - 1) // 2, N_outer // 2)
            dx = min((N - 1) // 2, N_outer // 2)
        ct = [Fr(rng.randint(-4, 4), rng.randint(1, 3)) for _ in range(dt + 1)]
        cx = [Fr(rng.randint(-4, 4), rng.randint(1, 3)) for _ in range(dx + 1)]
        if all(c == 0 for c in ct):
            ct[0] = Fr(1)
        if dx >= 1 and all(c == 0 for c in cx[1:]):
            cx[1] = Fr(1)
        if dt >= 1 and all(c == 0 for c in ct[1:]):
            ct[1] = Fr(1)
        if all(c == 0 for c in cx):
            cx[0] = Fr(1)
        # centre the space polynomial at the element to keep it well conditioned: q(x - x_mid)
        xm = Fr(e.space_interval[0])
        tm = Fr(e.time_interval[0])
        from ..oracles.slobo import shift_scale
        # on the very short elements of the deep shard the polynomial lives on the scale of the element (otherwise it is constant to
        # ten digits there and the difference quotients cancel: measured 7e-7 for 1 + x^2 + 1.5 x^3 on an element of length 1.5e-5)
        xs = Fr(e.h_x) if e in deep_leaves else Fr(1)
        cx_abs = shift_scale(cx, -xm / xs, 1 / xs)     # q(x) := qc((x - xm)/xs)
        ct_abs = shift_scale(ct, -tm, Fr(1))
        res = poly_residual([float(c) for c in ct], [float(c) for c in cx], float(tm), float(xm), float(xs))
        # the weighted-L2 order is a separate argument too: in a third of the cases it is too low for the residual (then only the
        # Sobolev values are judged), so that an order handed to the wrong rule shows in the Sobolev patches
        N_wl2 = N_outer if rng.random() < 0.67 else rng.choice([1, 3])
        EE = ErrorEstimator(mesh, N_poly=(N_wl2, N_outer, N_time, N))
        w = dict(wit0, elem=ekey(e), orders=(N_wl2, N_outer, N_time, N), ct=[str(c) for c in ct], cx=[str(c) for c in cx])
        acc.seen('order:%d' % N)
        try:
            tot_s, ips_s = EE.sobolev_space(e, res)
            tot_t, ips_t = EE.sobolev_time(e, res)
            wl2 = EE.weighted_l2(e, res)
        except Exception as ex:
            fr = repo_frame(ex)
            if fr is None:
                raise
            acc.violation('indicator-raised:%s:%s' % (fr[0], type(ex).__name__), '%s: raised %s at %s:%d' % (curve, type(ex).__name__, fr[1], fr[2]), w)
            continue
        # ---- (b) neighbour sets
        want_s = {rm.rect_of(e)} | set(ls.ref.neighbours(r, 'L')) | set(ls.ref.neighbours(r, 'R'))
        want_t = {rm.rect_of(e)} | set(ls.ref.neighbours(r, 'B')) | set(ls.ref.neighbours(r, 'T'))
        for name, ips, want in (('sobolev_space', ips_s, want_s), ('sobolev_time', ips_t, want_t)):
            got = [rm.rect_of(by_idx[i]) for i, _ in ips if i in by_idx]
            acc.seen('rel:neighbour-set')
            acc.case('%s|%d|%r|nb|%s' % (curve, spec['rseed'], ekey(e), name), None)
            if len(got) != len(ips) or set(got) != want or len(got) != len(set(got)):
                acc.violation('indicator-neighbour-set:' + name, '%s: %s of %r uses neighbours %r, geometric %r' % (curve, name, ekey(e), sorted(got), sorted(want)), w)
            s = math.fsum(v for _, v in ips)
            tot = tot_s if name == 'sobolev_space' else tot_t
            if abs(s - tot) > 1e-12 * abs(s):
                acc.violation('indicator-total-differs:' + name, '%s: returned total %r, sum of patches %r' % (curve, tot, s), w)
        # ---- weighted L2 (exact for polynomials when 2*deg <= N_outer)
        Ix = poly_int_sq(cx_abs, Fr(e.space_interval[0]), Fr(e.space_interval[1]))
        It = poly_int_sq(ct_abs, Fr(e.time_interval[0]), Fr(e.time_interval[1]))
        l2 = float(Ix * It)
        acc.seen('ind:weighted_l2')
        acc.case('%s|%d|%r|wl2' % (curve, spec['rseed'], ekey(e)), None)
        for val, want, nm in ((wl2[0], l2 / math.sqrt(e.h_t), 'time'), (wl2[1], l2 / e.h_x, 'space')):
            if 2 * max(dt, dx) > N_wl2:
                acc.count('weighted_l2_beyond_exactness_not_judged')
                continue
            if abs(val - want) > 1e-9 * abs(want) + 1e-300:
                acc.violation('weighted-l2-wrong:' + nm, '%s: weighted_l2 %s part %r, definition %r' % (curve, nm, val, want), w)
            acc.worst_of('weighted_l2 rel.err', abs(val - want) / abs(want) if want else 0.0)
        # ---- (a) polynomial closed forms on straight same-piece patches
        for i, val in ips_s:
            nb = by_idx[i]
            kind = patch_kind(e, nb)
            acc.seen('patch:' + kind)
            if geo.circle or kind in ('corner', 'seam'):
                continue
            acc.seen('residual:polynomial')
            xa = min(e.space_interval[0], nb.space_interval[0])
            xb = max(e.space_interval[1], nb.space_interval[1])
            ta = max(e.time_interval[0], nb.time_interval[0])
            tb = min(e.time_interval[1], nb.time_interval[1])
            want = float(poly_int_sq(ct_abs, Fr(ta), Fr(tb)) * slobo.h12_exact(cx_abs, Fr(xa), Fr(xb)))
            acc.case('%s|%d|%r|%r|S|%d' % (curve, spec['rseed'], ekey(e), ekey(nb), N), None)
            acc.seen('ind:sobolev_space')
            err = abs(val - want) / want if want > 0 else abs(val)
            acc.worst_of('sobolev_space polynomial rel.err', err)
            if want > 0 and err > 1e-8 or (want == 0 and abs(val) > 1e-20):
                acc.violation('sobolev-space-patch-wrong:%s' % kind, '%s: patch (%r, %r): %r, definition %r (rel %.2e, order %d)' %
                              (curve, ekey(e), ekey(nb), val, want, err, N), dict(w, nbr=ekey(nb)))
        for i, val in ips_t:
            nb = by_idx[i]
            if nb is e:
                acc.seen('patch:self')
            acc.seen('residual:polynomial')
            xa = max(e.space_interval[0], nb.space_interval[0])
            xb = min(e.space_interval[1], nb.space_interval[1])
            ta = min(e.time_interval[0], nb.time_interval[0])
            tb = max(e.time_interval[1], nb.time_interval[1])
            want = float(poly_int_sq(cx_abs, Fr(xa), Fr(xb)) * slobo.h14_exact_rational(ct_abs, Fr(ta), Fr(tb))) * math.sqrt(tb - ta)
            acc.case('%s|%d|%r|%r|T|%d' % (curve, spec['rseed'], ekey(e), ekey(nb), N), None)
            acc.seen('ind:sobolev_time')
            err = abs(val - want) / want if want > 0 else abs(val)
            acc.worst_of('sobolev_time polynomial rel.err', err)
            if want > 0 and err > 1e-8 or (want == 0 and abs(val) > 1e-20):
                acc.violation('sobolev-time-patch-wrong', '%s: patch (%r, %r): %r, definition %r (rel %.2e, order %d)' %
                              (curve, ekey(e), ekey(nb), val, want, err, N_time), dict(w, nbr=ekey(nb)))
        # ---- (a') trigonometric residual in embedded coordinates, order 17/19, graded reference with Euclidean distances
        if n_trig < spec['n_trig']:
            n_trig += 1
            Nt = rng.choice([17, 19])
            # wave vector scaled to the curve: the phase varies by at most ~2 rad over the whole curve, so that the
            # property's "1e-4 at order 17" is asked of residuals as smooth, relative to the patch, as those it was measured on
            kmax = 2.0 / {'UnitSquare': 2**0.5, 'PiSquare': math.pi * 2**0.5, 'LShape': 8**0.5, 'Circle': 2.0}[curve]
            a_, b_, c_, w_ = rng.uniform(0.3, 0.7) * kmax, rng.uniform(-0.7, 0.7) * kmax, rng.uniform(0, 1), rng.uniform(0, 0.5)
            rtrig, F = trig_residual(a_, b_, c_, w_)
            EEt = ErrorEstimator(mesh, N_poly=(Nt, Nt, Nt, Nt))
            wt = dict(wit0, elem=ekey(e), order=Nt, trig=[a_, b_, c_, w_])
            try:
                _, ips2 = EEt.sobolev_space(e, rtrig)
                _, ipt2 = EEt.sobolev_time(e, rtrig)
            except Exception as ex:
                fr = repo_frame(ex)
                if fr is None:
                    raise
                acc.violation('indicator-raised:%s:%s' % (fr[0], type(ex).__name__), '%s: raised %s at %s:%d' % (curve, type(ex).__name__, fr[1], fr[2]), wt)
                continue
            gx, gw = gl(8)
            for i, val in ips2:
                nb = by_idx[i]
                kind = patch_kind(e, nb)
                # order the two intervals along the curve (left then right, through the seam if needed)
                if nb is e:
                    segs = [(geo.piece_of(*e.space_interval), e.space_interval[0], e.space_interval[1])]
                else:
                    A, B = (e, nb) if e.space_interval[0] < nb.space_interval[0] else (nb, e)
                    if not (A.space_interval[1] == B.space_interval[0]):   # adjacent through the seam: B ends at L, A starts at 0
                        A, B = B, A
                    segs = [(geo.piece_of(*A.space_interval), A.space_interval[0], A.space_interval[1]),
                            (geo.piece_of(*B.space_interval), B.space_interval[0], B.space_interval[1])]
                ta = max(e.time_interval[0], nb.time_interval[0])
                tb = min(e.time_interval[1], nb.time_interval[1])
                want = 0.0
                for g, wg in zip(gx, gw):
                    t = ta + (tb - ta) * g
                    want += (tb - ta) * wg * ref_h12_patch(geo, F, t, segs)
                err = abs(val - want) / want
                acc.case('%s|%d|%r|%r|Strig|%d' % (curve, spec['rseed'], ekey(e), ekey(nb), Nt), None)
                acc.seen('residual:trigonometric')
                acc.seen('ind:sobolev_space')
                acc.seen('patch:' + kind)
                acc.worst_of('sobolev_space trig rel.err (%s)' % kind, err)
                if err > 1e-4:
                    acc.violation('sobolev-space-patch-wrong:%s' % kind, '%s: %s patch (%r, %r): %r, reference %r (rel %.2e, order %d)' %
                                  (curve, kind, ekey(e), ekey(nb), val, want, err, Nt), dict(wt, nbr=ekey(nb)))
            for i, val in ipt2[:2]:
                nb = by_idx[i]
                xa = max(e.space_interval[0], nb.space_interval[0])
                xb = min(e.space_interval[1], nb.space_interval[1])
                ta = min(e.time_interval[0], nb.time_interval[0])
                tb = max(e.time_interval[1], nb.time_interval[1])
                pc = geo.piece_of(xa, xb)
                want = 0.0
                for g, wg in zip(gx, gw):
                    x = xa + (xb - xa) * g
                    P = geo.point(pc, np.array([x]))
                    want += (xb - xa) * wg * ref_h14_time(lambda tt: F(tt, P), ta, tb)
                err = abs(val - want) / want
                acc.case('%s|%d|%r|%r|Ttrig|%d' % (curve, spec['rseed'], ekey(e), ekey(nb), Nt), None)
                acc.seen('ind:sobolev_time')
                acc.worst_of('sobolev_time trig rel.err', err)
                if err > 1e-4:
                    acc.violation('sobolev-time-patch-wrong', '%s: patch (%r, %r): %r, reference %r (rel %.2e, order %d)' %
                                  (curve, ekey(e), ekey(nb), val, want, err, Nt), dict(wt, nbr=ekey(nb)))
    acc.sample({'curve': curve, 'n_elements': len(elems), 'checked_elements': len(sample), 'history_head': ls.history[:4]}, curve)


# ------------------------------------------------------------------ relations: shortcut, pool
def run_rel(spec, acc):
    import multiprocessing as mp
    import numpy as np
    from ..monitor import repo_frame
    from ..workloads.meshes import LockStep
    from src.error_estimator import ErrorEstimator
    curve = spec['curve']
    rng = random.Random(spec['rseed'] * 59 + CURVES.index(curve))
    ls = LockStep({'curve': curve, 'time_grid': [0, 0.5, 1]})
    for _ in range(spec['n_ops']):
        L = ls.leaves()
        ls.apply(('b', rng.randrange(len(L)), rng.randrange(2)))
    mesh = ls.mesh
    elems = list(mesh.leaf_elements)
    wit0 = {'curve': curve, 'history': ls.history}
    acc.seen('curve:' + curve)
    rtrig, F = trig_residual(1.3, -0.7, 0.5, 0.2)
    EE = ErrorEstimator(mesh, N_poly=(5, 3, 5, 5))
    real_cpu = mp.cpu_count
    try:
        serial = EE.estimate_sobolev(elems, rtrig, use_mp=False)
        direct = np.zeros((len(elems), 2))
        for k, e in enumerate(elems):
            direct[k, 0] = EE.sobolev_time(e, rtrig, nbrs_symmetry=False)[0]
            direct[k, 1] = EE.sobolev_space(e, rtrig, nbrs_symmetry=False)[0]
        acc.case('%s|shortcut' % curve, None)
        acc.seen('rel:shortcut')
        rel = float(np.max(np.abs(serial - direct) / np.maximum(np.abs(direct), 1e-300)))
        acc.worst_of('shortcut vs direct sums', rel)
        if not (rel <= 1e-12):
            k = int(np.argmax(np.abs(serial - direct) / np.maximum(np.abs(direct), 1e-300)) // 2)
            acc.violation('sobolev-shortcut-differs', '%s: estimate_sobolev differs from the per-element sums by %.2e (element %r)' % (curve, rel, ekey(elems[k])), wit0)
        # the element list may come in any order (reversed, sorted by position, shuffled): same numbers per element
        direct_of = {id(e): direct[k] for k, e in enumerate(elems)}
        for oname, order in (('reversed', list(reversed(elems))),
                             ('by-position', sorted(elems, key=lambda e: (e.space_interval, e.time_interval))),
                             ('shuffled', rng.sample(elems, len(elems)))):
            got = EE.estimate_sobolev(order, rtrig, use_mp=False)
            want = np.array([direct_of[id(e)] for e in order])
            rel = float(np.max(np.abs(got - want) / np.maximum(np.abs(want), 1e-300)))
            acc.case('%s|order|%s' % (curve, oname), None)
            acc.seen('rel:list-order')
            acc.worst_of('shortcut vs direct sums (reordered list)', rel)
            if not (rel <= 1e-12):
                k = int(np.argmax(np.abs(got - want) / np.maximum(np.abs(want), 1e-300)) // 2)
                acc.violation('sobolev-shortcut-depends-on-list-order', '%s: with the element list %s estimate_sobolev differs from the per-element sums by %.2e (element %r)'
                              % (curve, oname, rel, ekey(order[k])), dict(wit0, order=oname))
        wl_serial = EE.estimate_weighted_l2(elems, rtrig, use_mp=False)
        wl_direct = np.array([EE.weighted_l2(e, rtrig) for e in elems])
        if wl_serial.tobytes() != wl_direct.tobytes():
            acc.violation('weighted-l2-estimate-differs', '%s: estimate_weighted_l2 differs from per-element weighted_l2' % curve, wit0)
        for k in spec['workers']:
            mp.cpu_count = lambda k=k: k
            try:
                pooled = EE.estimate_sobolev(elems, rtrig, use_mp=True)
                wl_pool = EE.estimate_weighted_l2(elems, rtrig, use_mp=True)
            finally:
                mp.cpu_count = real_cpu
            acc.case('%s|pool|%d' % (curve, k), None)
            acc.seen('rel:pool')
            if pooled.tobytes() != serial.tobytes():
                acc.violation('sobolev-pool-differs', '%s: estimate_sobolev with %d workers differs from the serial result' % (curve, k), dict(wit0, workers=k))
            if np.asarray(wl_pool).tobytes() != wl_serial.tobytes():
                acc.violation('weighted-l2-pool-differs', '%s: estimate_weighted_l2 with %d workers differs from the serial result' % (curve, k), dict(wit0, workers=k))
        # a history of DIFFERENT pooled calls in one process: another residual, then a refined mesh (state kept in
        # worker processes or module globals from an earlier call must not leak into a later one)
        r2, _ = trig_residual(0.4, 0.9, 0.2, 0.1)
        mp.cpu_count = lambda: 3
        try:
            steps = [('second residual', elems, r2)]
            got = [(EE.estimate_sobolev(elems, r2, use_mp=True), EE.estimate_weighted_l2(elems, r2, use_mp=True))]
            serial_ref = [(EE.estimate_sobolev(elems, r2, use_mp=False), EE.estimate_weighted_l2(elems, r2, use_mp=False))]
            for _ in range(3):
                L = ls.leaves()
                ls.apply(('b', rng.randrange(len(L)), rng.randrange(2)))
            elems2 = list(mesh.leaf_elements)
            steps.append(('refined mesh', elems2, rtrig))
            got.append((EE.estimate_sobolev(elems2, rtrig, use_mp=True), EE.estimate_weighted_l2(elems2, rtrig, use_mp=True)))
            serial_ref.append((EE.estimate_sobolev(elems2, rtrig, use_mp=False), EE.estimate_weighted_l2(elems2, rtrig, use_mp=False)))
        finally:
            mp.cpu_count = real_cpu
        for (label, el, rr), (gs, gw), (ws_, ww_) in zip(steps, got, serial_ref):
            acc.case('%s|pool-history|%s' % (curve, label), None)
            acc.seen('rel:pool-history')
            if np.asarray(gs).tobytes() != ws_.tobytes() or np.asarray(gw).tobytes() != ww_.tobytes():
                acc.violation('pool-differs-after-earlier-call', '%s: pooled estimate (%s) after earlier pooled calls in the same process differs from the serial result'
                              % (curve, label), dict(wit0, step=label))
    except Exception as ex:
        fr = repo_frame(ex)
        if fr is None:
            raise
        acc.violation('estimate-raised:%s:%s' % (fr[0], type(ex).__name__), '%s: raised %s at %s:%d' % (curve, type(ex).__name__, fr[1], fr[2]), wit0)
    finally:
        mp.cpu_count = real_cpu
    acc.sample({'curve': curve, 'n_elements': len(elems), 'workers': spec['workers']}, 'rel' + curve)


# ------------------------------------------------------------------ symmetry: quarter turn of the unit square
def run_sym(spec, acc):
    import numpy as np
    from ..oracles import refmesh as rm
    from src.error_estimator import ErrorEstimator
    from src.mesh import MeshParametrized
    from src import parametrization as P
    rng = random.Random(spec['rseed'])
    for case in range(spec['n']):
        k = rng.choice([1, 2, 3])          # rotate by k sides
        ops = []
        gamma = P.UnitSquare()
        A = MeshParametrized(gamma, initial_time_mesh=[0, 0.5, 1])
        B = MeshParametrized(gamma, initial_time_mesh=[0, 0.5, 1])
        for _ in range(rng.randint(6, 22)):
            LA = list(A.leaf_elements)
            e = LA[rng.randrange(len(LA))]
            ax = rng.randrange(2)
            x0, x1 = e.space_interval
            y0 = (x0 + k) % 4
            y1 = y0 + (x1 - x0)
            img = [f for f in B.leaf_elements if f.time_interval == e.time_interval and f.space_interval == (y0, y1)]
            if len(img) != 1:
                acc.inconclusive_because('symmetry workload: image leaf not found')
                return
            A.refine_axis(e, ax)
            B.refine_axis(img[0], ax)
            ops.append((rm.rect_of(e), ax))
        # residual F on A; on B the same function pulled back through the rotation by k quarter turns about (1/2,1/2)
        c, s = [(1, 0), (0, 1), (-1, 0), (0, -1)][k % 4]
        rt, F = trig_residual(1.1, 0.6, 0.4, 0.3)

        def FB(t, X):
            Xc = np.asarray(X, dtype=float) - 0.5
            # inverse rotation
            U = np.array([c * Xc[0] + s * Xc[1], -s * Xc[0] + c * Xc[1]]) + 0.5
            return F(t, U)
        rA = lambda t, xh, g: F(np.asarray(t, dtype=float), g(np.asarray(xh, dtype=float)))
        rB = lambda t, xh, g: FB(np.asarray(t, dtype=float), g(np.asarray(xh, dtype=float)))
        N = rng.choice([3, 5, 9])
        EA = ErrorEstimator(A, N_poly=N)
        EB = ErrorEstimator(B, N_poly=N)
        eA = list(A.leaf_elements)
        eB = list(B.leaf_elements)
        SA = EA.estimate_sobolev(eA, rA, use_mp=False)
        SB = EB.estimate_sobolev(eB, rB, use_mp=False)
        WA = EA.estimate_weighted_l2(eA, rA, use_mp=False)
        WB = EB.estimate_weighted_l2(eB, rB, use_mp=False)
        idxB = {(f.time_interval, f.space_interval): j for j, f in enumerate(eB)}
        worst = 0.0
        for i, e in enumerate(eA):
            y0 = (e.space_interval[0] + k) % 4
            j = idxB[(e.time_interval, (y0, y0 + (e.space_interval[1] - e.space_interval[0])))]
            for va, vb in list(zip(SA[i], SB[j])) + list(zip(WA[i], WB[j])):
                worst = max(worst, abs(va - vb) / max(abs(va), 1e-300))
        acc.case('sym|%d|%d|%d' % (spec['rseed'], case, k), None)
        acc.seen('rel:symmetry')
        acc.worst_of('quarter-turn indicator mismatch', worst)
        if not (worst <= 1e-10):
            acc.violation('symmetry-not-respected', 'quarter turn by %d sides changes an indicator by %.2e (order %d, %d elements)' % (k, worst, N, len(eA)),
                          {'k': k, 'ops': ops, 'order': N})
        if case == 0:
            acc.sample({'rotation_by_sides': k, 'n_elements': len(eA), 'order': N, 'ops_head': ops[:4]}, 'sym')


def run_shard(spec, acc):
    {'patch': run_patch, 'rel': run_rel, 'sym': run_sym}[spec['mode']](spec, acc)
