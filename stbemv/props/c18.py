"""C18 - curves are arc-length, closed, piecewise consistent; elements sit on one piece."""
import math
import random

ID = 'C18'
TITLE = 'curves: arc length, continuity, closedness, eval == piece; elements carry their piece; >= 3 per slab'
LEVEL = 'exploration'
RULE = ('the five shipped curves and random axis-parallel polygons accepted by the real PiecewisePolygon constructor '
        '(rectangles, L/U/staircase shapes, integer and dyadic vertices; rejected ones are counted) are evaluated through '
        'the real eval()/pw_gamma at seeded parameters incl. 0, L, every break point and break point +-1 ulp, as scalars '
        'and as vectors spanning several pieces. Oracle: chord |g(x)-g(y)| equals |x-y| on a straight piece (2 sin(|x-y|/2) '
        'on the circle) to 16 eps*scale, Richardson difference quotient has norm 1 (1e-7), piece lengths equal the '
        'Euclidean side lengths, continuity at break points, g(L)=g(0) when closed, eval(x)==pw_gamma[i](x) for a piece '
        'containing x. Mesh part: MeshParametrized on every curve with 1..6 initial slabs and space grids = break points + '
        'random extra points, random bisection histories; every leaf carries the piece object whose parameter range '
        'contains its interval, every slab of a closed curve has >= 3 leaves around, two leaves share <= 1 end point. '
        'distinct = distinct (curve, parameter) evaluations + distinct (curve, grids, history) meshes')
RULE += ' ' + 'Every second random polygon is re-checked after the caller has shifted its vertex arrays in place and built another polygon from them (the curve is a value).'
RULE += ' ' + 'Vector arguments are passed ascending, descending, shuffled and as short interleaved vectors (first and last entry on one piece, entries in between on others).'
ASSUMPTIONS = [
    'absolute tolerance 16*eps*max(1, L, |vertex|) on coordinates (cos/sin and the affine map are each good to a few ulp)',
    'polygons that the constructor rejects by assertion are outside the quantifier (counted, not judged), except polygons '
    'whose vertices are small dyadic numbers: there every operation of the constructor is exact, the end points are bit-exact, '
    'and a rejection is reported',
    'initial space grids contain every break point (precondition stated in the property)',
]
REQUIRED = {t: ['curve:UnitSquare', 'curve:PiSquare', 'curve:LShape', 'curve:Circle', 'curve:UnitInterval',
                'curve:random-polygon', 'curve:polygon-after-caller-reuses-its-arrays', 'param:breakpoint', 'param:breakpoint+-ulp', 'param:ends', 'param:vector-multi-piece', 'param:vector-interleaved', 'param:vector-descending',
                'mesh:slabs>=3', 'mesh:closed-one-piece', 'mesh:extra-space-points', 'mesh:grid-graded-to-break-point', 'mesh:refined']
            for t in ('quick', 'thorough')}
TIMEOUT = {'quick': 600, 'thorough': 3600}
SHIPPED = ['UnitSquare', 'PiSquare', 'LShape', 'Circle', 'UnitInterval']
EPS = 2.220446049250313e-16


def plan(tier, seed):
    specs = [{'name': 'shipped-' + c, 'mode': 'curve', 'curve': c, 'n_params': 2000 if tier == 'quick' else 40000}
             for c in SHIPPED]
    n = 8 if tier == 'quick' else 128
    for k in range(n):
        specs.append({'name': 'poly-%d' % k, 'mode': 'poly', 'rseed': seed * 3571 + k, 'n_poly': 12 if tier == 'quick' else 40,
                      'n_params': 300})
    for k in range(n):
        specs.append({'name': 'mesh-%d' % k, 'mode': 'mesh', 'rseed': seed * 1409 + k, 'n_mesh': 10 if tier == 'quick' else 30,
                      'steps': 40 if tier == 'quick' else 120})
    return specs


# ---------------------------------------------------------------------------
def random_polygon(rng):
    """Vertices of a simple closed axis-parallel polygon, counter-clockwise or clockwise, closed (first == last)."""
    import numpy as np
    unit = rng.choice([1, 1, 2, 0.5, 0.25, 3, 0.125, 0.1, math.pi])
    kind = rng.choice(['rect', 'L', 'U', 'stairs'])
    ox, oy = rng.choice([0, 0, -1, 2, -3]) * unit, rng.choice([0, 0, 1, -2]) * unit
    if kind == 'rect':
        a, b = rng.randint(1, 4), rng.randint(1, 4)
        pts = [(0, 0), (a, 0), (a, b), (0, b)]
    elif kind == 'L':
        a, b = rng.randint(2, 4), rng.randint(2, 4)
        c, d = rng.randint(1, a - 1), rng.randint(1, b - 1)
        pts = [(0, 0), (a, 0), (a, d), (c, d), (c, b), (0, b)]
    elif kind == 'U':
        pts = [(0, 0), (3, 0), (3, 2), (2, 2), (2, 1), (1, 1), (1, 2), (0, 2)]
    else:
        n = rng.randint(2, 4)
        pts = [(0, 0), (n, 0)]
        for k in range(n):
            pts += [(n - k, k + 1), (n - k - 1, k + 1)]
        pts = [p for i, p in enumerate(pts) if i == 0 or p != pts[i - 1]]
    if rng.random() < 0.5:
        pts = [pts[0]] + pts[1:][::-1]
    verts = [np.array([ox + unit * x, oy + unit * y], dtype=float) for x, y in pts]
    verts.append(verts[0].copy())
    return verts, {'kind': kind, 'unit': unit, 'origin': [ox, oy], 'pts': pts}


def curve_facts(gamma, name, verts=None):
    """Independent description: per piece (start, end, straight?, endpoints) and scale."""
    import numpy as np
    starts = list(gamma.pw_start)
    L = starts[-1]
    scale = max(1.0, L)
    if verts is not None:
        scale = max(scale, max(float(np.max(np.abs(v))) for v in verts))
    return starts, L, scale


def check_curve(acc, gamma, name, rng, n_params, verts, wit, cls):
    import numpy as np
    starts, L, scale = curve_facts(gamma, name, verts)
    tol = 16 * EPS * scale
    npieces = len(gamma.pw_gamma)
    straight = name != 'Circle'
    ok = True

    def viol(key, msg, extra=None):
        nonlocal ok
        ok = False
        w = dict(wit)
        if extra:
            w.update(extra)
        acc.violation('curve:' + key, '%s: %s' % (name, msg), w)

    if len(starts) != npieces + 1 or starts[0] != 0 or any(b <= a for a, b in zip(starts, starts[1:])):
        viol('pw_start-malformed', 'pw_start %r for %d pieces' % (starts, npieces))
        return False
    if gamma.gamma_length != L:
        viol('length', 'gamma_length %r != pw_start[-1] %r' % (gamma.gamma_length, L))
    # piece lengths = side lengths
    if verts is not None:
        for i in range(npieces):
            side = float(np.linalg.norm(verts[i + 1] - verts[i]))
            acc.case('%s|len|%d' % (name, i), None)
            if abs((starts[i + 1] - starts[i]) - side) > tol:
                viol('piece-length', 'piece %d has parameter length %r, side length %r' % (i, starts[i + 1] - starts[i], side))
            for end, v in ((starts[i], verts[i]), (starts[i + 1], verts[i + 1])):
                p = np.asarray(gamma.pw_gamma[i](end), dtype=float).reshape(-1)
                if np.max(np.abs(p - v)) > tol:
                    viol('piece-endpoint', 'piece %d at %r gives %r, vertex is %r' % (i, end, p.tolist(), v.tolist()))
    elif name == 'Circle':
        if abs(L - 2 * math.pi) > tol:
            viol('piece-length', 'circle length %r' % L)
    # continuity at break points, closedness
    for i in range(1, npieces):
        a = np.asarray(gamma.pw_gamma[i - 1](starts[i]), dtype=float)
        b = np.asarray(gamma.pw_gamma[i](starts[i]), dtype=float)
        acc.case('%s|cont|%d' % (name, i), None)
        if np.max(np.abs(a - b)) > tol:
            viol('discontinuous', 'jump %.3e at break point %r' % (float(np.max(np.abs(a - b))), starts[i]))
    if gamma.closed:
        a = np.asarray(gamma.eval(0.0), dtype=float)
        b = np.asarray(gamma.eval(L), dtype=float)
        if np.max(np.abs(a - b)) > tol:
            viol('not-closed', 'g(L)-g(0) = %.3e' % float(np.max(np.abs(a - b))))
    # parameters
    params = [(0.0, 'ends'), (L, 'ends')]
    for s in starts[1:-1]:
        params.append((s, 'breakpoint'))
        params.append((float(np.nextafter(s, 0)), 'breakpoint+-ulp'))
        params.append((float(np.nextafter(s, 2 * L)), 'breakpoint+-ulp'))
    if npieces == 1:
        acc.seen('param:breakpoint', 0)
    params.append((float(np.nextafter(0.0, 1)), 'ends'))
    params.append((float(np.nextafter(L, 0)), 'ends'))
    for _ in range(n_params):
        params.append((rng.uniform(0, L), 'random'))

    def pieces_of(x):
        return [i for i in range(npieces) if starts[i] <= x <= starts[i + 1]]

    for x, kind in params:
        acc.seen('param:' + kind)
        try:
            val = np.asarray(gamma.eval(x), dtype=float).reshape(-1)
        except Exception as ex:
            from ..monitor import repo_frame
            if repo_frame(ex) is None:
                raise
            viol('eval-raised', 'eval(%r) raised %s' % (x, type(ex).__name__), {'x': x})
            continue
        cands = [np.asarray(gamma.pw_gamma[i](x), dtype=float).reshape(-1) for i in pieces_of(x)]
        acc.case('%s|eval|%r' % (name, x), None)
        if val.shape != (2, ) or not any(np.array_equal(val, c) for c in cands):
            viol('eval-differs-from-piece', 'eval(%r)=%r, containing piece(s) give %r' % (x, val.tolist(), [c.tolist() for c in cands]), {'x': x})
    # vector evaluation spanning pieces, in several arrangements: ascending, descending, shuffled, and short vectors whose first and last
    # entries lie on one piece while entries in between lie on others (nothing promises callers pass sorted parameters)
    base = sorted(p for p, _ in params)
    arrangements = [('ascending', base), ('descending', base[::-1])]
    sh = list(base)
    rng.shuffle(sh)
    arrangements.append(('shuffled', sh))
    if npieces > 1:
        for _ in range(6):
            i, j = rng.sample(range(npieces), 2)
            a_, b_ = starts[i], starts[i + 1]
            c_, d_ = starts[j], starts[j + 1]
            inner = [rng.uniform(c_, d_) for _ in range(rng.randint(1, 3))] + ([rng.uniform(0, L)] if rng.random() < 0.5 else [])
            arrangements.append(('interleaved', [rng.uniform(a_, b_)] + inner + [rng.uniform(a_, b_)]))
    for aname, seq in arrangements:
        xs = np.array(seq, dtype=float)
        try:
            V = np.asarray(gamma.eval(xs), dtype=float)
            acc.seen('param:vector-multi-piece')
            acc.seen('param:vector-' + aname)
            if V.shape != (2, len(xs)):
                viol('eval-vector-shape', 'eval(vector) has shape %r' % (V.shape, ))
            else:
                for k, x in enumerate(xs):
                    cands = [np.asarray(gamma.pw_gamma[i](x), dtype=float).reshape(-1) for i in pieces_of(float(x))]
                    if not any(np.array_equal(V[:, k], c) for c in cands):
                        viol('eval-differs-from-piece', 'vector eval (%s parameters) at %r gives %r' % (aname, float(x), V[:, k].tolist()),
                             {'x': float(x), 'arrangement': aname, 'vector': [float(v) for v in xs[:8]]})
                        break
            acc.case('%s|vector|%s|%r' % (name, aname, float(xs[0])), None)
        except Exception as ex:
            from ..monitor import repo_frame
            if repo_frame(ex) is None:
                raise
            viol('eval-raised', 'eval(vector, %s) raised %s' % (aname, type(ex).__name__))
    # out-of-range parameters are refused
    for x in (-1e-9, L * (1 + 1e-9) + 1e-9):
        try:
            gamma.eval(x)
            if npieces > 1:
                viol('eval-accepts-outside', 'eval(%r) accepted a parameter outside [0, L]' % x)
        except AssertionError:
            pass
    # arc length on each piece: chords and difference quotients
    for i in range(npieces):
        a, b = starts[i], starts[i + 1]
        g = gamma.pw_gamma[i]
        pts = [a, b, (a + b) / 2] + [rng.uniform(a, b) for _ in range(max(4, n_params // (8 * npieces)))]
        P = np.asarray(g(np.array(pts)), dtype=float)
        for _ in range(len(pts) * 2):
            j, k = rng.randrange(len(pts)), rng.randrange(len(pts))
            chord = float(np.linalg.norm(P[:, j] - P[:, k]))
            d = abs(pts[j] - pts[k])
            want = d if straight else 2 * math.sin(d / 2)
            acc.case(None, None)
            acc.worst_of('chord-error/eps-scale', abs(chord - want) / (EPS * scale))
            if abs(chord - want) > tol:
                viol('not-arc-length', 'piece %d: |g(%r)-g(%r)| = %r, expected %r' % (i, pts[j], pts[k], chord, want), {'piece': i})
                break
        h = min(1e-3, (b - a) / 8)
        for _ in range(4):
            x = rng.uniform(a + 2 * h, b - 2 * h)
            d1 = (np.asarray(g(x + h)) - np.asarray(g(x - h))) / (2 * h)
            d2 = (np.asarray(g(x + 2 * h)) - np.asarray(g(x - 2 * h))) / (4 * h)
            speed = float(np.linalg.norm((4 * d1 - d2) / 3))
            acc.worst_of('|speed-1|', abs(speed - 1))
            if abs(speed - 1) > 1e-7:
                viol('not-unit-speed', 'piece %d: |g\'(%r)| = %r' % (i, x, speed), {'piece': i})
    acc.seen(cls)
    return ok


def check_mesh_on_curve(acc, gamma, name, rng, steps, wit, cls):
    import numpy as np
    from ..monitor import repo_frame
    from ..oracles import refmesh as rm
    from src.mesh import MeshParametrized
    starts = list(gamma.pw_start)
    L = starts[-1]
    n_slabs = rng.randint(1, 6)
    tg = [0.0]
    for _ in range(n_slabs):
        tg.append(tg[-1] + rng.choice([1, 0.5, 0.25, 1 / 3, 0.1]))
    extra = rng.random() < 0.6
    sg = list(starts)
    if extra:
        for _ in range(rng.randint(1, 4)):
            i = rng.randrange(len(starts) - 1)
            f = rng.choice([0.5, 0.25, 0.75, rng.random()])
            p = starts[i] + f * (starts[i + 1] - starts[i])
            if starts[i] < p < starts[i + 1] and p not in sg:
                sg.append(p)
        if rng.random() < 0.5 and len(starts) > 2:
            # a grid graded geometrically towards a break point (from the left or the right), down to 2^-30 of the side:
            # what an adaptive initial grid resolving a corner looks like
            j = rng.randrange(1, len(starts) - 1)
            left = rng.random() < 0.5
            ln = (starts[j] - starts[j - 1]) if left else (starts[j + 1] - starts[j])
            for k in range(1, rng.randint(12, 30)):
                pnt = starts[j] - ln * 2.0**-k if left else starts[j] + ln * 2.0**-k
                if pnt not in sg and starts[0] < pnt < starts[-1]:
                    sg.append(pnt)
            acc.seen('mesh:grid-graded-to-break-point')
        sg.sort()
        acc.seen('mesh:extra-space-points')
    w = dict(wit, time_grid=tg, space_grid=sg if extra else None)
    try:
        mesh = MeshParametrized(gamma, initial_space_mesh=sg if extra else None, initial_time_mesh=tg)
    except Exception as ex:
        fr = repo_frame(ex)
        if fr is None:
            raise
        acc.violation('mesh-ctor-raised:%s' % fr[0], '%s: MeshParametrized raised %s at %s:%d' % (name, type(ex).__name__, fr[1], fr[2]), w)
        return
    if n_slabs >= 3:
        acc.seen('mesh:slabs>=3')
    if gamma.closed and len(gamma.pw_gamma) == 1:
        acc.seen('mesh:closed-one-piece')

    def judge(stage):
        leaves = list(mesh.leaf_elements)
        for e in leaves:
            x0, x1 = e.space_interval
            idx = [i for i in range(len(starts) - 1) if starts[i] <= x0 and x1 <= starts[i + 1]]
            if len(idx) != 1:
                acc.violation('element-spans-pieces', '%s: leaf %r lies in %d pieces' % (name, e, len(idx)), dict(w, stage=stage))
                return False
            if e.gamma_space is not gamma.pw_gamma[idx[0]]:
                acc.violation('element-wrong-piece', '%s: leaf %r does not carry piece %d' % (name, e, idx[0]), dict(w, stage=stage))
                return False
        if gamma.closed:
            ref = rm.RefMesh.from_leaves(rm.leaf_dict(mesh).items(), True, (tg[0], tg[-1], 0, L))
            for e in leaves:
                r = rm.rect_of(e)
                tm = (r[0] + r[1]) / 2
                around = sum(1 for s in ref.leaves if s[0] <= tm < s[1])
                if around < 3:
                    acc.violation('fewer-than-3-per-slab', '%s: only %d element(s) around the curve at t=%r' % (name, around, tm),
                                  dict(w, stage=stage))
                    return False
                R = set(ref.neighbours(r, 'R'))
                Lft = set(ref.neighbours(r, 'L'))
                if (R & Lft) or r in R or r in Lft:
                    acc.violation('two-shared-endpoints', '%s: leaf %r touches a leaf in both end points' % (name, r), dict(w, stage=stage))
                    return False
        return True

    acc.case('%s|%r|%r' % (name, tg, sg if extra else None), None)
    if not judge('initial'):
        return
    for _ in range(steps):
        Lv = list(mesh.leaf_elements)
        e = Lv[rng.randrange(len(Lv))]
        if e.h_x < 1e-6 or e.h_t < 1e-6:
            continue
        mesh.refine_axis(e, rng.randrange(2))
    acc.seen('mesh:refined')
    judge('after %d bisections' % steps)
    acc.seen(cls)
    acc.worst_of('mesh_leaves', len(mesh.leaf_elements))


def run_shard(spec, acc):
    import numpy as np
    from ..monitor import repo_frame
    from src import parametrization as P
    mode = spec['mode']
    if mode == 'curve':
        name = spec['curve']
        rng = random.Random(spec['seed'] * 31 + SHIPPED.index(name))
        gamma = getattr(P, name)()
        verts = {
            'UnitSquare': [(0, 0), (1, 0), (1, 1), (0, 1), (0, 0)],
            'PiSquare': [(0, 0), (math.pi, 0), (math.pi, math.pi), (0, math.pi), (0, 0)],
            'LShape': [(0, 0), (0, -1), (1, -1), (1, 1), (-1, 1), (-1, 0), (0, 0)],
            'UnitInterval': [(0, 0), (1, 0)],
            'Circle': None,
        }[name]
        if verts is not None:
            verts = [np.array(v, dtype=float) for v in verts]
        expected_closed = name != 'UnitInterval'
        if bool(gamma.closed) != expected_closed:
            acc.violation('curve:closed-flag', '%s.closed is %r' % (name, gamma.closed), {'curve': name})
        check_curve(acc, gamma, name, rng, spec['n_params'], verts, {'curve': name}, 'curve:' + name)
        acc.sample({'curve': name, 'pw_start': list(gamma.pw_start), 'n_params': spec['n_params']}, name)
        return
    rng = random.Random(spec['rseed'])
    if mode == 'poly':
        for k in range(spec['n_poly']):
            verts, desc = random_polygon(rng)
            try:
                gamma = P.PiecewisePolygon(verts, closed=True)
            except AssertionError:
                acc.count('polygons_rejected_by_constructor')
                u = desc['unit']
                if u in (1, 2, 3, 0.5, 0.25, 0.125):
                    # every vertex, side length and parameter is a small dyadic number: all arithmetic of the
                    # constructor is exact, its end points are bit-exact, so its own criterion accepts the polygon
                    acc.violation('curve:exact-polygon-rejected',
                                  'PiecewisePolygon rejected a polygon with dyadic vertices (bit-exact end points)', {'polygon': desc})
                continue
            acc.count('polygons_accepted')
            wit = {'polygon': desc}
            verts_then = [v.copy() for v in verts]
            check_curve(acc, gamma, 'polygon', rng, spec['n_params'], verts_then, wit, 'curve:random-polygon')
            if k % 2 == 0:
                # the caller goes on using its vertex arrays (here: shifts them in place and builds a second polygon from them);
                # the first curve is a value and must still be the polygon it was built from
                for v in verts[:-1]:
                    v += desc['unit']
                verts[-1][:] = verts[0]
                try:
                    P.PiecewisePolygon(verts, closed=True)
                except AssertionError:
                    pass
                acc.seen('curve:polygon-after-caller-reuses-its-arrays')
                check_curve(acc, gamma, 'polygon', rng, max(20, spec['n_params'] // 4), verts_then, dict(wit, caller_arrays='shifted in place afterwards'),
                            'curve:random-polygon')
            check_mesh_on_curve(acc, gamma, 'polygon', rng, 15, wit, 'curve:random-polygon')
            if k == 0:
                acc.sample({'polygon': desc, 'pw_start': list(gamma.pw_start)}, 'poly')
        return
    for k in range(spec['n_mesh']):
        name = SHIPPED[(spec['rseed'] + k) % len(SHIPPED)]
        gamma = getattr(P, name)()
        check_mesh_on_curve(acc, gamma, name, rng, spec['steps'], {'curve': name}, 'curve:' + name)
    acc.sample({'mode': 'mesh', 'rseed': spec['rseed'], 'n_mesh': spec['n_mesh'], 'steps': spec['steps']}, 'mesh')


def finalize(m, tier):
    return {'polygons_accepted': int(m['counters'].get('polygons_accepted', 0)),
            'polygons_rejected_by_constructor': int(m['counters'].get('polygons_rejected_by_constructor', 0))}
