"""C17 - assembly paths, worker schedules and the disk cache are transparent."""
import json
import os
import random

ID = 'C17'
TITLE = 'inline / serial / pool (1..16 workers, delays) / cache hit / cache faults: bit-identical to per-pair evaluation'
LEVEL = 'fault_enumeration'
RULE = ('the real bilform_matrix and linform_vector run on every path: inline (N*M < 100), serial, process pool with '
        'multiprocessing.cpu_count replaced by 1..16 (worker count and chunk size) and a worker-side monitor that logs '
        '(pid, task, start, end) to an O_APPEND trace and sleeps a seeded 0-3 ms so that completion order varies, cache miss, cache '
        'hit; square and rectangular lists on both sides of the small-size threshold; repeated calls in one process with different '
        'lists. Oracle: bitwise equality with the matrix of single bilform(trial_j, test_i) / linform(elem) calls; offline trace check: '
        'every column computed exactly once; after each injected cache fault (file missing, empty, 10 bytes, header only, half, one '
        'byte short, each planted and also produced by a save that writes that prefix and then raises, resp. dies with os._exit in a '
        'forked child; and a process that dies during assembly, before any save, at the first / a middle / the last pair and at timer-chosen '
        'moments of the pool path) the next call returns the bit-identical matrix and leaves a complete file; lists with identical element text '
        'on different curves and different lists on one curve never serve each other. distinct = distinct (object, path, worker count, '
        'delay seed, fault class) cases; distinct schedule signatures (task->pid map + completion order) are counted')
RULE += ' ' + 'A further group of schedule shards starts from initial time grids that are not dyadic (tenths, thirds, irregular), where time differences of translated pairs agree only up to rounding.'
ASSUMPTIONS = [
    'faults the property does not name (bit flips inside the data block, a well-formed file of another matrix planted under the same '
    'name) are not injected: the format has no checksum',
    'the cache key contains neither the exact-switch nor the quadrature order (the driver uses separate directories): not judged',
    'a killed pool worker hangs multiprocessing.Pool; recovery is not promised and not injected',
]
FAULTS = ['missing', 'empty', 'ten-bytes', 'header-only', 'half', 'one-byte-short']
REQUIRED = {t: ['path:inline', 'path:serial', 'path:pool', 'path:cache-hit', 'workers:1', 'workers:16', 'list:rectangular', 'list:below-threshold',
                'history:different-lists-one-process', 'fault:planted', 'fault:save-raises', 'fault:crash-during-save', 'fault:crash-during-assembly', 'object:matrix',
                'object:load-vector', 'keys:same-text-other-curve', 'keys:deep-siblings', 'call:test-list-only', 'trace:checked', 'source:driver', 'mesh:non-dyadic-time-grid', 'history:children-after-parents', 'list:early-tests-all-trials', 'keys:two-problems-one-cache-dir'] + ['fault-class:' + f for f in FAULTS]
            for t in ('quick', 'thorough')}
TIMEOUT = {'quick': 1500, 'thorough': 7200}
CURVES = ['UnitSquare', 'PiSquare', 'LShape', 'Circle', 'UnitInterval']


def plan(tier, seed):
    specs = []
    for ci, c in enumerate(CURVES):
        for k in range(1 if tier == 'quick' else 4):
            specs.append({'name': 'sched-%s-%d' % (c, k), 'mode': 'sched', 'curve': c, 'rseed': seed * 101 + ci + 17 * k,
                          'workers': list(range(1, 17)) if tier == 'thorough' else [1, 2, 3, 5, 8, 16], 'delays': 3 if tier == 'thorough' else 2,
                          'n_ops': 26 + 12 * k})
            specs.append({'name': 'fault-%s-%d' % (c, k), 'mode': 'fault', 'curve': c, 'rseed': seed * 103 + ci + 19 * k, 'n_ops': 22 + 10 * k})
    # initial time grids that are not dyadic (tenths, thirds, irregular): time differences of translated pairs agree only up to rounding
    grids = [[k / 10 for k in range(11)], [0, 1 / 3, 2 / 3, 1], [0, 0.1, 0.3, 0.6, 1.0], [0, 0.7, 0.8, 0.9, 1.0, 1.1]]
    for ci, c in enumerate(CURVES):
        for k in range(1 if tier == 'quick' else 4):
            specs.append({'name': 'sched-nondyadic-%s-%d' % (c, k), 'mode': 'sched', 'curve': c, 'rseed': seed * 109 + ci + 23 * k, 'time_grid': grids[(ci + k) % len(grids)],
                          'workers': [3] if tier == 'quick' else [1, 4, 16], 'delays': 1, 'n_ops': 6 + 6 * k})
    for c in ('UnitSquare', 'LShape', 'PiSquare'):
        specs.append({'name': 'm0-%s' % c, 'mode': 'm0', 'curve': c, 'rseed': seed * 107, 'workers': [1, 3, 16] if tier == 'quick' else [1, 2, 4, 7, 16]})
    specs.append({'name': 'keys', 'mode': 'keys', 'rseed': seed})
    for p, d, r, x in [('Dirichlet', 'UnitSquare', 'anisotropic', False), ('Smooth', 'PiSquare', 'isotropic', True), ('MildSingular', 'Circle', 'anisotropic', False)]:
        specs.append({'name': 'driver-%s-%s' % (p, d), 'mode': 'driver', 'problem': p, 'domain': d, 'refinement': r, 'exact': x,
                      'loops': 2 if tier == 'quick' else 3})
    return specs


# ---------------------------------------------------------------------------
def per_pair(SL, tests, trials):
    import numpy as np
    M = np.zeros((len(tests), len(trials)))
    for i, te in enumerate(tests):
        for j, tr in enumerate(trials):
            M[i, j] = SL.bilform(tr, te)
    return M


def same_bits(A, B):
    import numpy as np
    A, B = np.asarray(A), np.asarray(B)
    return A.shape == B.shape and A.dtype == B.dtype and A.tobytes() == B.tobytes()


def install_worker_monitor(module, fname, trace_fn, delay_seed):
    """Replace module.fname by a wrapper (same qualified name, so Pool pickles it by reference) that logs and delays."""
    import functools
    import time
    orig = getattr(module, fname)

    @functools.wraps(orig)
    def wrapper(j):
        t0 = time.monotonic()
        if delay_seed is not None:
            r = random.Random(delay_seed * 1000003 + j)
            time.sleep(r.random() * 0.003)
        out = orig(j)
        line = json.dumps({'pid': os.getpid(), 'j': j, 't0': t0, 't1': time.monotonic()}) + '\n'
        fd = os.open(trace_fn, os.O_WRONLY | os.O_APPEND | os.O_CREAT, 0o644)
        try:
            os.write(fd, line.encode())
        finally:
            os.close(fd)
        return out
    setattr(module, fname, wrapper)
    return lambda: setattr(module, fname, orig)


def read_trace(fn):
    if not os.path.exists(fn):
        return []
    out = [json.loads(l) for l in open(fn) if l.strip()]
    os.remove(fn)
    return out


def run_sched(spec, acc):
    import multiprocessing as mp
    import numpy as np
    from .. import env
    from ..monitor import repo_frame
    from ..workloads import slpairs
    import src.single_layer as SLmod
    curve = spec['curve']
    rng = random.Random(spec['rseed'])
    tg_default = rng.choice([[0, 1], [0, 0.5, 1]])
    ls, geo = slpairs.make_mesh(curve, spec['rseed'], spec['n_ops'], time_grid=spec.get('time_grid') or tg_default)
    if spec.get('time_grid'):
        acc.seen('mesh:non-dyadic-time-grid')
    elems = list(ls.mesh.leaf_elements)
    wit0 = {'curve': curve, 'mesh': ls.spec, 'history': ls.history}
    trace_fn = os.path.join(env.scratch_root(), 'trace-%s-%d.jsonl' % (curve, os.getpid()))
    real_cpu = mp.cpu_count
    signatures = set()
    try:
        for exact in (False, True):
            SL = SLmod.SingleLayerOperator(ls.mesh, pw_exact=exact)
            order = list(elems)
            rng.shuffle(order)
            lists = [('square', order, order),
                     ('rectangular', order[:max(12, len(order) // 2)], order[len(order) // 3:]),
                     ('rectangular', order[3:], order[:11])]
            # test elements confined to early times against all trial elements in shuffled order (whole columns are acausal), and the converse
            tcut = sorted(e.time_interval[1] for e in order)[len(order) // 2]
            early = [e for e in order if e.time_interval[1] <= tcut]
            late = [e for e in order if e.time_interval[0] >= tcut]
            if early and len(early) * len(order) >= 100:
                lists.append(('early-tests', early, order))
                acc.seen('list:early-tests-all-trials')
            if late and early and len(late) * len(early) >= 100:
                lists.append(('late-tests-early-trials', late, early[::-1] ))
            small = [('below-threshold', order[:7], order[5:17]), ('below-threshold', order[:9], order[:9]), ('below-threshold', order[:1], order)]
            for kind, tests, trials in lists + small:
                if not tests or not trials:
                    continue
                ref = per_pair(SL, tests, trials)
                n, m = len(tests), len(trials)
                below = n * m < 100
                w = dict(wit0, pw_exact=exact, n_test=n, n_trial=m, list=kind)
                acc.seen('list:' + ('below-threshold' if below else kind))
                try:
                    got = SL.bilform_matrix(tests, trials, use_mp=False)
                    path = 'inline' if below else 'serial'
                    acc.case('%s|%s|%s|%d|%d|%s' % (curve, path, exact, n, m, kind), None)
                    acc.seen('path:' + path)
                    acc.seen('object:matrix')
                    if not same_bits(got, ref):
                        acc.violation('path-differs:' + path, '%s: %s path differs from per-pair evaluation (%dx%d)' % (curve, path, n, m), w)
                    if below:
                        got = SL.bilform_matrix(tests, trials, use_mp=True)  # still the inline path
                        if not same_bits(got, ref):
                            acc.violation('path-differs:inline', '%s: inline path with use_mp differs (%dx%d)' % (curve, n, m), w)
                        continue
                    for k in spec['workers']:
                        for dseed in [None] + list(range(spec['delays'])):
                            if dseed is not None and k == 1:
                                continue
                            mp.cpu_count = lambda k=k: k
                            undo = install_worker_monitor(SLmod, 'MP_SL_matrix_col', trace_fn, dseed)
                            try:
                                got = SL.bilform_matrix(tests, trials, use_mp=True)
                            finally:
                                undo()
                                mp.cpu_count = real_cpu
                            tr = read_trace(trace_fn)
                            acc.case('%s|pool|%s|%d|%d|%d|%r' % (curve, exact, n, m, k, dseed), None)
                            acc.seen('path:pool')
                            acc.seen('workers:%d' % k)
                            ww = dict(w, workers=k, delay_seed=dseed)
                            if not same_bits(got, ref):
                                bad = np.argwhere(got != ref)
                                acc.violation('path-differs:pool', '%s: pool path (%d workers, delay seed %r) differs from per-pair evaluation at %d entries, first %r'
                                              % (curve, k, dseed, len(bad), bad[:1].tolist()), ww)
                            js = sorted(t['j'] for t in tr)
                            acc.seen('trace:checked')
                            if js != list(range(m)):
                                acc.violation('pool-task-not-exactly-once', '%s: worker trace lists tasks %r..., expected each of 0..%d once' % (curve, js[:8], m - 1), ww)
                            pids = {t['pid'] for t in tr}
                            acc.worst_of('distinct worker pids in one call', len(pids))
                            if len(pids) > k:
                                acc.violation('pool-more-workers-than-requested', '%d pids for %d workers' % (len(pids), k), ww)
                            pidmap = {p: i for i, p in enumerate(sorted(pids))}
                            sig = (k, m, tuple(pidmap[t['pid']] for t in sorted(tr, key=lambda t: t['j'])),
                                   tuple(t['j'] for t in sorted(tr, key=lambda t: t['t1'])))
                            signatures.add(hash(sig))
                except Exception as ex:
                    fr = repo_frame(ex)
                    if fr is None:
                        raise
                    acc.violation('assembly-raised:%s:%s' % (fr[0], type(ex).__name__), '%s: raised %s at %s:%d' % (curve, type(ex).__name__, fr[1], fr[2]), w)
            # only the test list given: the trial list defaults to the same list, on every path
            perm = list(order)
            rng.shuffle(perm)
            for label, got in (('keyword-serial', SL.bilform_matrix(elems_test=perm)), ('positional-pool', SL.bilform_matrix(perm, use_mp=True)),
                               ('no-argument', SL.bilform_matrix())):
                lst = perm if label != 'no-argument' else list(ls.mesh.leaf_elements)
                acc.case('%s|default-trial|%s|%s' % (curve, label, exact), None)
                acc.seen('call:test-list-only')
                if not same_bits(got, per_pair(SL, lst, lst)):
                    acc.violation('path-differs:default-trial-list', '%s: bilform_matrix with only the test list given (%s) differs from per-pair evaluation on that list' % (curve, label),
                                  dict(wit0, pw_exact=exact, call=label))
            # different lists one after the other in one process, pool path (stale module globals hazard)
            a1, a2 = order[:len(order) // 2], order[len(order) // 2:]
            if len(a1) * len(a1) >= 100 and len(a2) * len(a2) >= 100:
                mp.cpu_count = lambda: 3
                try:
                    g1 = SL.bilform_matrix(a1, a1, use_mp=True)
                    g2 = SL.bilform_matrix(a2, a1, use_mp=True)
                    g3 = SL.bilform_matrix(a2, a2, use_mp=False)
                    g4 = SL.bilform_matrix(a1, a2, use_mp=True)
                finally:
                    mp.cpu_count = real_cpu
                acc.seen('history:different-lists-one-process')
                for nm, g, te, trl in (('1', g1, a1, a1), ('2', g2, a2, a1), ('3', g3, a2, a2), ('4', g4, a1, a2)):
                    acc.case('%s|hist|%s|%s' % (curve, exact, nm), None)
                    if not same_bits(g, per_pair(SL, te, trl)):
                        acc.violation('path-differs:history', '%s: call %s of a sequence with different lists differs from per-pair evaluation' % (curve, nm),
                                      dict(wit0, pw_exact=exact, call=nm))
            # the same operator next assembles lists of CHILDREN (the quarters the estimators build) that share corners with the leaves it
            # has just seen; the reference comes from a fresh operator
            from src.hierarchical_error_estimator import DummyElement
            par = order[:6]
            fine = [q for qs in DummyElement.uniform_refinement(par) for q in qs]
            fresh = SLmod.SingleLayerOperator(ls.mesh, pw_exact=exact)
            for nm, te, trl in (('children-x-parents', fine, par), ('children-x-children', fine, fine), ('parents-x-children', par, fine)):
                got = SL.bilform_matrix(te, trl, use_mp=False)
                acc.case('%s|hist-children|%s|%s' % (curve, exact, nm), None)
                acc.seen('history:children-after-parents')
                if not same_bits(got, per_pair(fresh, te, trl)):
                    acc.violation('path-differs:history', '%s: %s assembled by an operator that assembled the parents before differs from per-pair evaluation by a fresh operator' % (curve, nm),
                                  dict(wit0, pw_exact=exact, call=nm))
    finally:
        mp.cpu_count = real_cpu
        if os.path.exists(trace_fn):
            os.remove(trace_fn)
    acc.extra['schedule_signatures'] = len(signatures)
    acc.distinct.update('sig%x' % (s & 0xffffffffffff) for s in signatures)
    acc.sample({'curve': curve, 'n_elements': len(elems), 'workers': spec['workers'], 'delay_seeds': spec['delays'],
                'distinct_schedule_signatures': len(signatures)}, curve)


# ---------------------------------------------------------------------------
def corrupt(fn, good, fault):
    """Plant the file-length class `fault` at fn (good = the complete bytes)."""
    hdr = good.index(b'\n') + 1
    data = {'missing': None, 'empty': b'', 'ten-bytes': good[:10], 'header-only': good[:hdr],
            'half': good[:len(good) // 2], 'one-byte-short': good[:-1]}[fault]
    if data is None:
        if os.path.exists(fn):
            os.remove(fn)
    else:
        with open(fn, 'wb') as f:
            f.write(data)


def run_fault(spec, acc, obj='matrix'):
    import io
    import shutil
    import tempfile
    import numpy as np
    from .. import env
    from ..monitor import repo_frame
    from ..workloads import slpairs
    import src.single_layer as SLmod
    curve = spec['curve']
    rng = random.Random(spec['rseed'])
    ls, geo = slpairs.make_mesh(curve, spec['rseed'], spec['n_ops'])
    elems = list(ls.mesh.leaf_elements)
    wit0 = {'curve': curve, 'mesh': ls.spec, 'history': ls.history}
    cdir = tempfile.mkdtemp(prefix='cache-', dir=env.scratch_root())
    real_save = np.save
    try:
        SL = SLmod.SingleLayerOperator(ls.mesh, cache_dir=cdir)
        SLn = SLmod.SingleLayerOperator(ls.mesh)
        tests, trials = elems, elems[:max(10, len(elems) - 3)]
        ref = per_pair(SLn, tests, trials)
        files = lambda: sorted(f for f in os.listdir(cdir) if f.endswith('.npy'))

        def call(label, w):
            try:
                got = SL.bilform_matrix(tests, trials, use_mp=False)
            except Exception as ex:
                fr = repo_frame(ex)
                if fr is None:
                    raise
                acc.violation('cache-call-raised:%s:%s' % (label.split(':')[0], type(ex).__name__),
                              '%s: bilform_matrix raised %s at %s:%d (%s)' % (curve, type(ex).__name__, fr[1], fr[2], label), w)
                return None
            acc.case('%s|%s' % (curve, label), None)
            if not same_bits(got, ref):
                acc.violation('cache-result-differs:' + label.split(':')[0], '%s: result differs from per-pair evaluation (%s)' % (curve, label), w)
            return got

        call('fresh', wit0)
        fs = files()
        if len(fs) != 1:
            acc.violation('cache-file-count', '%s: %d cache files after the first call' % (curve, len(fs)), wit0)
            return
        fn = os.path.join(cdir, fs[0])
        good = open(fn, 'rb').read()
        # a hit must be served from the file: poison bilform to see that it is not recomputed
        calls = [0]
        orig_bilform = SLmod.SingleLayerOperator.bilform
        SLmod.SingleLayerOperator.bilform = lambda self, a, b: (calls.__setitem__(0, calls[0] + 1), orig_bilform(self, a, b))[1]
        try:
            call('warm', wit0)
        finally:
            SLmod.SingleLayerOperator.bilform = orig_bilform
        acc.seen('path:cache-hit')
        acc.extra['bilform_calls_on_hit'] = calls[0]
        for fault in FAULTS:
            # (1) planted
            w = dict(wit0, fault=fault, how='planted')
            corrupt(fn, good, fault)
            call('planted:' + fault, w)
            acc.seen('fault:planted')
            acc.seen('fault-class:' + fault)
            if not os.path.exists(fn) or open(fn, 'rb').read() != good:
                acc.violation('cache-file-not-restored:planted', '%s: after fault %r the cache file was not rewritten completely' % (curve, fault), w)
                corrupt(fn, good, 'missing')
                real_save(fn, ref)
            call('after-planted:' + fault, w)
            # (2) a save that writes that prefix and then raises (swallowed by the cache layer's try/except)
            if fault != 'missing':
                w = dict(wit0, fault=fault, how='save-raises')
                hdr = good.index(b'\n') + 1
                prefix = {'empty': 0, 'ten-bytes': 10, 'header-only': hdr, 'half': len(good) // 2, 'one-byte-short': len(good) - 1}[fault]

                def bad_save(file, arr, *a, **k):
                    buf = io.BytesIO()
                    real_save(buf, arr)
                    with open(file if str(file).endswith('.npy') else str(file) + '.npy', 'wb') as f:
                        f.write(buf.getvalue()[:prefix])
                    raise OSError(28, 'No space left on device (injected)')
                os.remove(fn)
                np.save = bad_save
                try:
                    call('save-raises:' + fault, w)
                finally:
                    np.save = real_save
                acc.seen('fault:save-raises')
                call('after-save-raises:' + fault, w)
                if not os.path.exists(fn) or open(fn, 'rb').read() != good:
                    acc.violation('cache-file-not-restored:save-raises', '%s: after an interrupted save (%r) the next call did not leave a complete file' % (curve, fault), w)
                    if os.path.exists(fn):
                        os.remove(fn)
                    real_save(fn, ref)
                # (3) the process dies during the save (forked child), the parent continues with the same directory
                w = dict(wit0, fault=fault, how='crash-during-save')
                os.remove(fn)
                pid = os.fork()
                if pid == 0:
                    try:
                        def dying_save(file, arr, *a, **k):
                            buf = io.BytesIO()
                            real_save(buf, arr)
                            with open(file if str(file).endswith('.npy') else str(file) + '.npy', 'wb') as f:
                                f.write(buf.getvalue()[:prefix])
                                f.flush()
                            os._exit(17)
                        np.save = dying_save
                        SL.bilform_matrix(tests, trials, use_mp=False)
                    finally:
                        os._exit(18)
                _, status = os.waitpid(pid, 0)
                if os.waitstatus_to_exitcode(status) != 17:
                    acc.inconclusive_because('crash child exited with %r instead of dying inside save' % os.waitstatus_to_exitcode(status))
                acc.seen('fault:crash-during-save')
                call('after-crash:' + fault, w)
                if not os.path.exists(fn) or open(fn, 'rb').read() != good:
                    acc.violation('cache-file-not-restored:crash', '%s: after a crash during save (%r) the next call did not leave a complete file' % (curve, fault), w)
                    if os.path.exists(fn):
                        os.remove(fn)
                    real_save(fn, ref)
        # (4) the process dies DURING ASSEMBLY (before any save): at the first, a middle and the last pair on the serial path,
        #     and at a timer-chosen moment on the pool path; the next call in the surviving process must not trust what is on disk
        n_pairs = len(tests) * len(trials)
        crash_points = [('serial', 1), ('serial', n_pairs // 2), ('serial', n_pairs), ('pool', 0.02), ('pool', 0.15)]
        for path, point in crash_points:
            w = dict(wit0, how='crash-during-assembly', path=path, point=point)
            if os.path.exists(fn):
                os.remove(fn)
            pid = os.fork()
            if pid == 0:
                try:
                    if path == 'serial':
                        cnt = [0]
                        orig_b = SLmod.SingleLayerOperator.bilform

                        def dying_bilform(self, a, b):
                            cnt[0] += 1
                            if cnt[0] >= point:
                                os._exit(19)
                            return orig_b(self, a, b)
                        SLmod.SingleLayerOperator.bilform = dying_bilform
                        SL.bilform_matrix(tests, trials, use_mp=False)
                    else:
                        import signal
                        signal.signal(signal.SIGALRM, lambda *a: os._exit(19))
                        signal.setitimer(signal.ITIMER_REAL, point)
                        undo = install_worker_monitor(SLmod, 'MP_SL_matrix_col', os.devnull, 7)   # 0-3 ms per column
                        SL.bilform_matrix(tests, trials, use_mp=True)
                finally:
                    os._exit(18)
            _, status = os.waitpid(pid, 0)
            code = os.waitstatus_to_exitcode(status)
            acc.seen('fault:crash-during-assembly')
            acc.count('assembly_crash_exit_%d' % code)
            call('after-assembly-crash:%s' % path, w)
            if not os.path.exists(fn) or open(fn, 'rb').read() != good:
                acc.violation('cache-file-not-restored:assembly-crash', '%s: after a crash during %s assembly the next call did not leave a complete, correct file' % (curve, path), w)
                if os.path.exists(fn):
                    os.remove(fn)
                real_save(fn, ref)
        # different lists on the same curve never share an entry
        other_tests, other_trials = list(reversed(tests)), trials
        got = SL.bilform_matrix(other_tests, other_trials, use_mp=False)
        acc.case('%s|other-list' % curve, None)
        if not same_bits(got, per_pair(SLn, other_tests, other_trials)):
            acc.violation('cache-shared-between-lists', '%s: a permuted test list was served another list\'s matrix' % curve, wit0)
        if len(files()) != 2:
            acc.violation('cache-file-count', '%s: %d cache files for two different lists' % (curve, len(files())), wit0)
        # same test list, another trial list of the same length
        trials2 = elems[len(elems) - len(trials):]
        if trials2 != trials:
            got = SL.bilform_matrix(tests, trials2, use_mp=False)
            acc.case('%s|other-trial-list' % curve, None)
            if not same_bits(got, per_pair(SLn, tests, trials2)):
                acc.violation('cache-shared-between-lists', '%s: another trial list of the same length was served a foreign matrix' % curve, wit0)
        acc.sample({'curve': curve, 'cache_file': fs[0], 'bytes': len(good), 'faults': FAULTS, 'n_test': len(tests), 'n_trial': len(trials)}, curve)
    finally:
        np.save = real_save
        shutil.rmtree(cdir, ignore_errors=True)


def run_m0(spec, acc):
    """The initial-potential load vector: serial, pool, cache hit, cache faults."""
    import multiprocessing as mp
    import shutil
    import tempfile
    import numpy as np
    from .. import env
    from ..monitor import repo_frame
    import src.initial_potential as IPmod
    from src import initial_mesh as IM
    from src.mesh import MeshParametrized
    from src import parametrization as P
    curve = spec['curve']
    rng = random.Random(spec['rseed'])
    mesh = MeshParametrized(getattr(P, curve)())
    if curve == 'LShape':
        for e in list(mesh.leaf_elements):
            if e.h_x > 1:
                mesh.refine_space(e)
    for _ in range(6):
        L = list(mesh.leaf_elements)
        e = L[rng.randrange(len(L))]
        ax = rng.randrange(2)
        if ax == 0 and e.h_x**2 / (e.h_t / 2) > 32:
            ax = 1
        mesh.refine_axis(e, ax)
    elems = [e for e in mesh.leaf_elements if e.h_x**2 / e.h_t <= 32][:10]
    factory = getattr(IM, curve + 'BoundaryRefined')
    u0 = lambda xy: np.sin(xy[0]) * xy[1] + 1.0
    wit0 = {'curve': curve, 'elements': [(e.time_interval, e.space_interval) for e in elems]}
    cdir = tempfile.mkdtemp(prefix='cache-m0-', dir=env.scratch_root())
    trace_fn = os.path.join(env.scratch_root(), 'trace-m0-%s-%d.jsonl' % (curve, os.getpid()))
    real_cpu = mp.cpu_count
    try:
        M0 = IPmod.InitialOperator(mesh, u0, initial_mesh=factory)
        try:
            ref = np.array([M0.linform(e)[0] for e in elems])
            got = M0.linform_vector(elems, use_mp=False)
        except Exception as ex:
            fr = repo_frame(ex)
            if fr is None:
                raise
            acc.violation('linform-raised:%s:%s' % (fr[0], type(ex).__name__), '%s: raised %s at %s:%d' % (curve, type(ex).__name__, fr[1], fr[2]), wit0)
            return
        acc.case('%s|m0|serial' % curve, None)
        acc.seen('object:load-vector')
        if not same_bits(got, ref):
            acc.violation('path-differs:m0-serial', '%s: serial load vector differs from per-element linform' % curve, wit0)
        for k in spec['workers']:
            mp.cpu_count = lambda k=k: k
            undo = install_worker_monitor(IPmod, 'MP_M0_val', trace_fn, k)
            try:
                got = M0.linform_vector(elems, use_mp=True)
            finally:
                undo()
                mp.cpu_count = real_cpu
            tr = read_trace(trace_fn)
            acc.case('%s|m0|pool|%d' % (curve, k), None)
            if not same_bits(np.asarray(got, dtype=float), ref):
                acc.violation('path-differs:m0-pool', '%s: pool load vector (%d workers) differs from per-element linform' % (curve, k), dict(wit0, workers=k))
            if sorted(t['j'] for t in tr) != list(range(len(elems))):
                acc.violation('pool-task-not-exactly-once:m0', '%s: worker trace %r' % (curve, sorted(t['j'] for t in tr)), dict(wit0, workers=k))
        # another list in the same process, pool path (stale module globals hazard)
        # first a list of the same length (reversed), then a shorter one
        same_len = list(reversed(elems))
        mp.cpu_count = lambda: 2
        try:
            got_same = M0.linform_vector(same_len, use_mp=True)
        finally:
            mp.cpu_count = real_cpu
        acc.case('%s|m0|pool-same-length-list' % curve, None)
        if not same_bits(np.asarray(got_same, dtype=float), np.array([M0.linform(e)[0] for e in same_len])):
            acc.violation('path-differs:m0-history', '%s: pool call with the reversed element list (same length as the call before) differs from per-element linform' % curve, wit0)
        other = list(reversed(elems))[:max(2, len(elems) - 3)]
        mp.cpu_count = lambda: 2
        try:
            got = M0.linform_vector(other, use_mp=True)
        finally:
            mp.cpu_count = real_cpu
        acc.case('%s|m0|pool-other-list' % curve, None)
        acc.seen('history:different-lists-one-process')
        if not same_bits(np.asarray(got, dtype=float), np.array([M0.linform(e)[0] for e in other])):
            acc.violation('path-differs:m0-history', '%s: second pool call with another element list differs from per-element linform' % curve, wit0)
        # cache: fresh, warm, faults
        M0c = IPmod.InitialOperator(mesh, u0, initial_mesh=factory, cache_dir=cdir)
        for label in ('fresh', 'warm'):
            got = M0c.linform_vector(elems, use_mp=False)
            acc.case('%s|m0|%s' % (curve, label), None)
            if not same_bits(got, ref):
                acc.violation('cache-result-differs:m0-' + label, '%s: load vector differs (%s)' % (curve, label), wit0)
        # the same elements in another order against the warm cache: entry i must be the load of element i
        for oname, order in (('reversed', list(reversed(elems))), ('rotated', elems[3:] + elems[:3])):
            got = M0c.linform_vector(order, use_mp=False)
            acc.case('%s|m0|cache-order|%s' % (curve, oname), None)
            acc.seen('history:different-lists-one-process')
            if not same_bits(got, np.array([M0.linform(e)[0] for e in order])):
                acc.violation('cache-shared-between-lists:m0', '%s: load vector for the %s element list against a warm cache is not the per-element load' % (curve, oname),
                              dict(wit0, order=oname))
        # two problems (different u0, different `problem` name) on the same curve and element list sharing the cache directory,
        # as the driver does when it is run for Smooth and then Singular: each must get its own loads
        u0_other = (lambda xy: 1.0 + 0.5 * xy[0] - 0.25 * xy[1] * xy[1])
        M0_o = IPmod.InitialOperator(mesh, u0_other, initial_mesh=factory)
        ref_o = np.array([M0_o.linform(e)[0] for e in elems])
        M0c_o = IPmod.InitialOperator(mesh, u0_other, initial_mesh=factory, cache_dir=cdir, problem='other-datum')
        M0c_n = IPmod.InitialOperator(mesh, u0, initial_mesh=factory, cache_dir=cdir, problem='first-datum')
        for label, op_, want_ in (('named-first', M0c_n, ref), ('other-problem-same-list', M0c_o, ref_o), ('named-first-again', M0c_n, ref), ('other-problem-again', M0c_o, ref_o)):
            got = op_.linform_vector(elems, use_mp=False)
            acc.case('%s|m0|two-problems|%s' % (curve, label), None)
            acc.seen('keys:two-problems-one-cache-dir')
            if not same_bits(got, want_):
                acc.violation('cache-shared-between-problems:m0', '%s: load vector of call "%s" is not the per-element load of its own initial datum' % (curve, label),
                              dict(wit0, call=label))
        for f in os.listdir(cdir):
            if f.startswith('M0_first-datum') or f.startswith('M0_other-datum'):
                os.remove(os.path.join(cdir, f))
        # keep only the file of the original list for the fault part
        keep = None
        for f in sorted(os.listdir(cdir)):
            if f.endswith('.npy'):
                try:
                    if same_bits(np.load(os.path.join(cdir, f)), ref):
                        keep = f
                except Exception:
                    pass
        for f in os.listdir(cdir):
            if f.endswith('.npy') and f != keep:
                os.remove(os.path.join(cdir, f))
        fs = [f for f in os.listdir(cdir) if f.endswith('.npy')]
        if len(fs) == 1:
            fn = os.path.join(cdir, fs[0])
            good = open(fn, 'rb').read()
            for fault in FAULTS:
                corrupt(fn, good, fault)
                try:
                    got = M0c.linform_vector(elems, use_mp=False)
                except Exception as ex:
                    fr = repo_frame(ex)
                    if fr is None:
                        raise
                    acc.violation('cache-call-raised:m0:%s' % type(ex).__name__, '%s: linform_vector raised after fault %r' % (curve, fault), dict(wit0, fault=fault))
                    continue
                acc.case('%s|m0|fault|%s' % (curve, fault), None)
                if not same_bits(got, ref):
                    acc.violation('cache-result-differs:m0-fault', '%s: load vector differs after fault %r' % (curve, fault), dict(wit0, fault=fault))
                if open(fn, 'rb').read() != good:
                    acc.violation('cache-file-not-restored:m0', '%s: load-vector cache not rewritten after fault %r' % (curve, fault), dict(wit0, fault=fault))
        else:
            acc.violation('cache-file-count:m0', '%s: %d cache files' % (curve, len(fs)), wit0)
        acc.sample({'curve': curve, 'n_elements': len(elems), 'workers': spec['workers']}, 'm0' + curve)
    finally:
        mp.cpu_count = real_cpu
        shutil.rmtree(cdir, ignore_errors=True)
        if os.path.exists(trace_fn):
            os.remove(trace_fn)


def run_keys(spec, acc):
    """Lists whose elements print identically on two different curves, one cache directory."""
    import shutil
    import tempfile
    import numpy as np
    from .. import env
    from src.mesh import MeshParametrized
    from src import parametrization as P
    from src.single_layer import SingleLayerOperator
    cdir = tempfile.mkdtemp(prefix='cache-keys-', dir=env.scratch_root())
    try:
        grid = [0, 0.5, 1, 1.5, 2, 2.5, 3, 3.5, 4]
        sq = P.UnitSquare()
        rect = P.PiecewisePolygon([np.array(v, dtype=float) for v in [(0, 0), (1.5, 0), (1.5, 0.5), (0, 0.5), (0, 0)]])
        res = []
        for gamma in (sq, rect, sq):
            mesh = MeshParametrized(gamma, initial_space_mesh=grid, initial_time_mesh=[0, 0.5, 1])
            elems = list(mesh.leaf_elements)
            SLc = SingleLayerOperator(mesh, cache_dir=cdir)
            SLn = SingleLayerOperator(mesh)
            got = SLc.bilform_matrix(elems, elems, use_mp=False)
            ref = per_pair(SLn, elems, elems)
            acc.case('keys|%s|%d' % (type(gamma).__name__, len(res)), None)
            if not same_bits(got, ref):
                acc.violation('cache-shared-between-curves', 'a list with identical element text on another curve was served a foreign matrix (%s)' % type(gamma).__name__,
                              {'grid': grid, 'curve': type(gamma).__name__})
            res.append(str(elems))
        if res[0] == res[1]:
            acc.seen('keys:same-text-other-curve')
        # two lists of equal length whose elements differ only in late digits (sibling leaves at space / time level 20-24)
        for ax in (1, 0):
            mesh = MeshParametrized(P.UnitSquare(), initial_time_mesh=[0, 1])
            e = [x for x in mesh.leaf_elements if x.space_interval[0] == 1][0]
            for _ in range(22 if ax == 1 else 24):
                kids = mesh.refine_axis(e, ax)
                e = kids[0]
            sib = e.parent.children[1]
            coarse = sorted((x for x in mesh.leaf_elements if x is not e and x is not sib), key=lambda x: -x.h_x * x.h_t)[:10]
            A, B = coarse + [e], coarse + [sib]
            SLc = SingleLayerOperator(mesh, cache_dir=cdir)
            SLn = SingleLayerOperator(mesh)
            gA = SLc.bilform_matrix(A, A, use_mp=False)
            gB = SLc.bilform_matrix(B, B, use_mp=False)
            acc.case('keys|deep|%d' % ax, None)
            acc.seen('keys:deep-siblings')
            if not same_bits(gA, per_pair(SLn, A, A)) or not same_bits(gB, per_pair(SLn, B, B)):
                acc.violation('cache-shared-between-lists:deep', 'two lists that differ in one sibling leaf at level %d (axis %d) were served the same cache entry'
                              % (e.levels[ax], ax), {'axis': ax, 'level': e.levels[ax], 'elem': repr(e), 'sibling': repr(sib)})
        acc.extra['cache_files_keys'] = sorted(os.listdir(cdir))
        acc.sample({'grid': grid, 'curves': ['UnitSquare', 'rectangle 1.5x0.5'], 'files': sorted(os.listdir(cdir))}, 'keys')
    finally:
        shutil.rmtree(cdir, ignore_errors=True)


def run_driver(spec, acc):
    """What the real driver solved with (pool assembly, its own cache directory) against per-pair / per-element evaluation."""
    import numpy as np
    from ..monitor import repo_frame
    from ..workloads.driver import run_driver as drive
    import problems
    from src import initial_mesh as IM
    from src.initial_potential import InitialOperator
    from src.single_layer import SingleLayerOperator
    argv = ['--problem', spec['problem'], '--domain', spec['domain'], '--refinement', spec['refinement'], '--no-h-h2']
    if spec['exact']:
        argv.append('--single-layer-exact')
    caps, err = drive(argv, loops=spec['loops'])
    wit0 = {'driver_argv': argv}
    if err is not None:
        fr = repo_frame(err)
        if fr is None:
            raise err
        acc.violation('driver-raised:%s:%s' % (fr[0], type(err).__name__), 'example.py raised %s at %s:%d' % (type(err).__name__, fr[1], fr[2]), wit0)
    data = problems.problem_helper(spec['problem'], spec['domain'])
    for li, cap in enumerate(caps):
        A, b, x = cap['solve']
        elems = cap['elems']
        SL = SingleLayerOperator(cap['mesh'], pw_exact=spec['exact'])
        ref = per_pair(SL, elems, elems)
        acc.case('%s|%d|matrix' % (spec['name'], li), None)
        acc.seen('source:driver')
        if not same_bits(A, ref):
            acc.violation('path-differs:driver-matrix', 'loop %d: the matrix the driver solves with differs from per-pair evaluation (%d elements)' % (li, len(elems)), dict(wit0, loop=li))
        rhs = np.zeros(len(elems))
        if 'u0' in data:
            M0 = InitialOperator(bdr_mesh=cap['mesh'], u0=data['u0'], initial_mesh=getattr(IM, spec['domain'] + 'BoundaryRefined'))
            rhs = -np.array([M0.linform(e)[0] for e in elems])
        if 'g' in data:
            rhs = rhs + data['g-linform'](elems)
        if not same_bits(np.asarray(b, dtype=float), rhs):
            acc.violation('path-differs:driver-rhs', 'loop %d: the right-hand side the driver solves with differs from per-element evaluation' % li, dict(wit0, loop=li))
    acc.sample({'driver_argv': argv, 'loops': len(caps), 'sizes': [len(c['elems']) for c in caps]}, spec['name'])


def run_shard(spec, acc):
    {'sched': run_sched, 'fault': run_fault, 'm0': run_m0, 'keys': run_keys, 'driver': run_driver}[spec['mode']](spec, acc)


def finalize(m, tier):
    sigs = sum(e.get('schedule_signatures', 0) for e in m['extra'])
    hits = [e.get('bilform_calls_on_hit') for e in m['extra'] if 'bilform_calls_on_hit' in e]
    if any(h for h in hits):
        m['inconclusive'].append('a warm call was not served from the cache (%r bilform calls): the cache-hit path was not exercised' % hits)
    return {'distinct_schedule_signatures': sigs, 'bilform_calls_during_cache_hits': hits}
