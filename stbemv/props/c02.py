"""C02 - mesh leaves always tile the space-time cylinder, minimally and 1-irregularly."""
from ..workloads import meshexplore

ID = 'C02'
TITLE = 'mesh tiling / minimal 1-irregular closure / bookkeeping'
LEVEL = 'exploration'
RULE = ('every operation of a history is executed on the real Mesh and, in lock-step, on the reference model '
        '(set of float rectangles + geometric neighbours + chain closure); after each operation the live leaves '
        '(geometry and levels) must equal the model and the model-free invariants must hold (refinement tree '
        'partitions every parent at the float midpoint, leaf collection == childless nodes, exact area, unique '
        'indices, unique vertex coordinates, gmsh() == leaves). Exhaustive part: all bisection sequences to the '
        'depth bound from 18 small initial meshes, states deduplicated by refinement-tree signature; a case is one '
        'checked transition, distinct = distinct (initial mesh, tree signature) states plus distinct random histories')
RULE += ' ' + 'Also three chains of 1060 bisections towards t = 0 / x = 0 (leaf sizes down to 2^-1060; exact-comparison oracle: area, <= 2 neighbours per edge, no exception).'
ASSUMPTIONS = [
    'the reference model RefMesh (stbemv/oracles/refmesh.py) states the intended semantics: least set of bisections closed under "edge neighbour coarser in that axis"',
    'Doerfler/grading steps inside random histories are judged here only for tiling, bookkeeping and 1-irregularity; their minimality is C06/C19',
    'held on the executions observed; the space of histories is explored (exhaustively to the stated depth), not exhausted',
]
REQUIRED = {
    'quick': ['op:with-closure', 'op:no-closure', 'op:bisect', 'op:refine-both', 'op:uniform', 'op:uniform-space',
              'op:dorfler', 'op:grading', 'random:glued', 'random:open', 'source:repo-test-suite', 'deep:seam-last-top', 'deep:seam-first-top', 'deep:interior-top', 'deep:1000-ancestors:time-to-0', 'deep:1000-ancestors:space-to-0'],
}
REQUIRED['thorough'] = REQUIRED['quick']
TIMEOUT = {'quick': 900, 'thorough': 7200}


def plan(tier, seed):
    return meshexplore.plan(tier, seed)


def run_shard(spec, acc):
    meshexplore.run_shard(spec, acc, 'C02')


def finalize(m, tier):
    return {'states': int(m['counters'].get('bfs_states', 0)),
            'transitions': int(m['counters'].get('bfs_transitions', 0)),
            'exhaustive': False,
            'explanation': 'bfs_states/bfs_transitions count the bounded-exhaustive part (per shard dedup; '
                           'distinct_nontrivial is the cross-shard union); random histories go beyond the bound'}
