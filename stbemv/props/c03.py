"""C03 - Galerkin orthogonality: the estimator's residual integrates to zero per element."""
import random

ID = 'C03'
TITLE = 'residual handed to the estimators has zero mean over every element (|int r| <= 5e-5 int |r| + 1e-12)'
LEVEL = 'exploration'
RULE = ('(i) the real driver example.py runs through runpy under a monitor on ErrorEstimator.residual and numpy.linalg.solve for the '
        'problem x domain x refinement x switch combinations it accepts, two adaptive loops each (the estimators, marking and '
        'refinement of the first loop really run); (ii) replicas of the driver\'s assemble/solve/residual lines run on random '
        'aspect-bounded meshes (aspect <= 32) for every shipped problem. Oracle: for sampled leaves E (first/last slab, seam, corner, '
        'finest, coarsest, random) the residual closure is integrated over E with an independent graded rule that splits at every '
        'mesh time/space break point inside E (nodes > 2.5e-5 from break points: the documented precondition of evaluate), at two '
        'resolutions; verdict from the finer one: |int_E r| <= 5e-5*int_E |r| + 1e-12. The linear system handed to solve must be the one '
        'the residual is built from (residual of the solve <= 1e-10). distinct = distinct (configuration, mesh, element)')
ASSUMPTIONS = [
    'the graded rule (stbemv/oracles/resquad.py) resolves the sqrt-kinks in t and log-kinks in x; a case whose two resolutions differ '
    'by more than 2e-5*int|r| is inconclusive',
    'meshes up to ~50 elements in the quick tier (cost of evaluating the residual closure), a few hundred in the thorough tier',
]
REQUIRED = {t: ['source:driver', 'source:replica', 'problem:Smooth', 'problem:Singular', 'problem:Dirichlet', 'problem:MildSingular',
                'domain:UnitSquare', 'domain:PiSquare', 'domain:LShape', 'domain:Circle', 'switch:exact', 'switch:quad',
                'elem:first-slab', 'elem:seam', 'elem:finest', 'elem:screened', 'driver:second-loop', 'driver:second-problem-in-the-same-directory', 'data:initial', 'data:dirichlet']
            for t in ('quick', 'thorough')}
TIMEOUT = {'quick': 1800, 'thorough': 9000}

COMBOS = [('Smooth', 'UnitSquare'), ('Smooth', 'PiSquare'), ('Singular', 'UnitSquare'), ('Singular', 'LShape'),
          ('Dirichlet', 'UnitSquare'), ('Dirichlet', 'PiSquare'), ('Dirichlet', 'LShape'), ('Dirichlet', 'Circle'),
          ('MildSingular', 'UnitSquare'), ('MildSingular', 'PiSquare'), ('MildSingular', 'LShape'), ('MildSingular', 'Circle')]


def plan(tier, seed):
    specs = []
    rng = random.Random(seed)
    # (i) the real driver
    drv = []
    for i, (p, d) in enumerate(COMBOS):
        ref = ['uniform', 'isotropic', 'anisotropic'][(i + seed) % 3]
        exact = (i + seed) % 2 == 0 and d != 'Circle'
        drv.append((p, d, ref, exact))
    if tier == 'thorough':
        for i, (p, d) in enumerate(COMBOS):
            drv.append((p, d, ['anisotropic', 'uniform', 'isotropic'][(i + seed) % 3], (i + seed) % 2 == 1))
    for p, d, ref, exact in drv:
        specs.append({'name': 'driver-%s-%s-%s-%s' % (p, d, ref, 'exact' if exact else 'quad'), 'mode': 'driver', 'problem': p, 'domain': d,
                      'refinement': ref, 'exact': exact, 'loops': 2, 'n_elem': 5 if tier == 'quick' else 10})
    specs.append({'name': 'driver-Singular-after-Smooth-UnitSquare', 'mode': 'driver', 'problem': 'Singular', 'domain': 'UnitSquare', 'after': 'Smooth',
                  'refinement': 'uniform', 'exact': False, 'loops': 2, 'n_elem': 5 if tier == 'quick' else 10})
    # (ii) replicas on random meshes
    for i, (p, d) in enumerate(COMBOS):
        for k in range(1 if tier == 'quick' else 3):
            specs.append({'name': 'replica-%s-%s-%d' % (p, d, k), 'mode': 'replica', 'problem': p, 'domain': d, 'rseed': seed * 307 + 13 * i + k,
                          'exact': (i + k + seed) % 2 == 1, 'n_ops': (10 if tier == 'quick' else 30) + 12 * k, 'n_elem': 6 if tier == 'quick' else 14})
    return specs


def ekey(e):
    return (tuple(e.time_interval), tuple(e.space_interval))


def pick_elements(elems, L, rng, n):
    """Named sample: first/last slab, seam, corner/break, finest, coarsest, random."""
    T0 = min(e.time_interval[0] for e in elems)
    T1 = max(e.time_interval[1] for e in elems)
    big = [e for e in elems if e.h_x >= 8e-3]
    picks = []

    def add(cls, cands):
        cands = [c for c in cands if c in big and all(c is not p for _, p in picks)]
        if cands:
            picks.append((cls, rng.choice(cands)))
    add('first-slab', [e for e in elems if e.time_interval[0] == T0])
    add('seam', [e for e in elems if e.space_interval[0] == 0 or e.space_interval[1] == L])
    add('finest', sorted(big, key=lambda e: e.h_t * e.h_x)[:3])
    add('last-slab', [e for e in elems if e.time_interval[1] == T1])
    add('coarsest', sorted(big, key=lambda e: -e.h_t * e.h_x)[:3])
    while len(picks) < n and len(picks) < len(big):
        add('random', big)
    return picks[:max(n, 3)]


def screen_elements(acc, residual, elems, already, top=3):
    """Cheap rule over ALL leaves (it cannot decide, but a gross violation of orthogonality on one leaf stands out); the leaves
    with the largest screened ratio join the sample and are decided with the fine rule."""
    import numpy as np
    from ..oracles import resquad
    t_breaks = sorted({t for e in elems for t in e.time_interval})
    x_breaks = sorted({x for e in elems for x in e.space_interval})
    scored = []
    for E in elems:
        if E.h_x < 8e-3 or any(E is a for a in already):
            continue
        try:
            Tn, Xn, Wn = resquad.element_rule(E.time_interval, E.space_interval, t_breaks, x_breaks, n=3, depth_t=2, depth_x=2)
            r = np.asarray(residual(Tn, Xn, E.gamma_space), dtype=float)
        except Exception:
            continue
        a = float(np.sum(Wn * np.abs(r)))
        scored.append((abs(float(np.sum(Wn * r))) / max(a, 1e-300), E))
        acc.count('elements_screened')
    scored.sort(key=lambda s_: -s_[0])
    return [('screened', E) for _, E in scored[:top]]


def judge_residual(acc, residual, elems, sample, wit0, src, label_classes):
    import numpy as np
    from ..monitor import repo_frame
    from ..oracles import resquad
    t_breaks = sorted({t for e in elems for t in e.time_interval})
    x_breaks = sorted({x for e in elems for x in e.space_interval})
    for cls, E in sample:
        w = dict(wit0, elem=ekey(E), elem_class=cls)
        vals = []
        try:
            for (n, dt, dx) in ((4, 4, 3), (6, 6, 3)):
                Tn, Xn, Wn = resquad.element_rule(E.time_interval, E.space_interval, t_breaks, x_breaks, n=n, depth_t=dt, depth_x=dx)
                r = np.asarray(residual(Tn, Xn, E.gamma_space), dtype=float)
                vals.append((float(np.sum(Wn * r)), float(np.sum(Wn * np.abs(r)))))
        except Exception as ex:
            fr = repo_frame(ex)
            if fr is None:
                raise
            acc.violation('residual-raised:%s:%s' % (fr[0], type(ex).__name__), 'evaluating the residual raised %s at %s:%d' % (type(ex).__name__, fr[1], fr[2]), w)
            continue
        (i1, a1), (i2, a2) = vals
        if not np.isfinite(i2) or not np.isfinite(a2):
            acc.violation('residual-not-finite', 'int_E r = %r, int_E |r| = %r' % (i2, a2), w)
            continue
        if abs(i1 - i2) > 2e-5 * a2 + 1e-12:
            acc.count('residual_quadrature_not_converged')
            acc.worst_of('coarse-fine / int|r|', abs(i1 - i2) / max(a2, 1e-300))
            continue
        ratio = abs(i2) / max(a2, 1e-300)
        acc.case('%s|%r' % (src, ekey(E)), None)
        acc.seen('elem:' + cls)
        for c in label_classes:
            acc.seen(c)
        acc.worst_of('|int r| / int |r| (%s)' % src.split('|')[0], ratio)
        if abs(i2) > 5e-5 * a2 + 1e-12:
            acc.violation('residual-not-orthogonal:%s' % src.split('|')[1],
                          '|int_E r| = %.3e, int_E |r| = %.3e (ratio %.2e) on element %r [%s]' % (abs(i2), a2, ratio, ekey(E), src), w)
        acc.sample(dict(src=src, elem=ekey(E), int_r=i2, int_abs_r=a2, ratio=ratio), src, per_class=1)


def run_driver_shard(spec, acc):
    import numpy as np
    from ..monitor import repo_frame
    from ..workloads.driver import run_driver
    rng = random.Random(hash(spec['name']) & 0xffff)
    argv = ['--problem', spec['problem'], '--domain', spec['domain'], '--refinement', spec['refinement'], '--no-h-h2']
    if spec['exact']:
        argv.append('--single-layer-exact')
    wit0 = {'driver_argv': argv}
    workdir = None
    if spec.get('after'):
        # the driver is first run for ANOTHER problem on the same domain in the same working directory (its ./data cache stays behind),
        # as a user does who computes Smooth and then Singular; only the second run is judged
        import shutil
        import tempfile
        from .. import env
        workdir = tempfile.mkdtemp(prefix='driver-seq-', dir=env.scratch_root())
        argv0 = ['--problem', spec['after'], '--domain', spec['domain'], '--refinement', spec['refinement'], '--no-h-h2'] + (['--single-layer-exact'] if spec['exact'] else [])
        _, err0 = run_driver(argv0, loops=spec['loops'], workdir=workdir)
        wit0['earlier_run_in_the_same_directory'] = argv0
        acc.seen('driver:second-problem-in-the-same-directory')
        if err0 is not None and repo_frame(err0) is None:
            raise err0
    try:
        caps, err = run_driver(argv, loops=spec['loops'], workdir=workdir)
    finally:
        if workdir:
            shutil.rmtree(workdir, ignore_errors=True)
    if err is not None:
        fr = repo_frame(err)
        if fr is None:
            raise err
        acc.violation('driver-raised:%s:%s' % (fr[0], type(err).__name__), 'example.py %s raised %s at %s:%d' % (' '.join(argv), type(err).__name__, fr[1], fr[2]), wit0)
    if not caps:
        if err is None:
            acc.inconclusive_because('driver produced no residual')
        return
    classes = ['source:driver', 'problem:' + spec['problem'], 'domain:' + spec['domain'], 'switch:' + ('exact' if spec['exact'] else 'quad'),
               'data:initial' if spec['problem'] in ('Smooth', 'Singular') else 'data:dirichlet']
    for li, cap in enumerate(caps):
        elems = cap['elems']
        L = cap['mesh'].gamma_space.gamma_length
        A, b, x = cap['solve']
        res_lin = float(np.max(np.abs(A @ x - b)) / max(np.max(np.abs(b)), 1e-300))
        acc.worst_of('linear-system residual', res_lin)
        w = dict(wit0, loop=li, n_elements=len(elems))
        if not np.array_equal(x, np.asarray(cap['Phi'])):
            acc.violation('residual-built-from-other-density', 'the density passed to residual() is not the solution returned by solve', w)
        if res_lin > 1e-10:
            acc.violation('linear-solve-inaccurate', 'max |A Phi - rhs| / max|rhs| = %.2e' % res_lin, w)
        if li >= 1:
            acc.seen('driver:second-loop')
        sample = pick_elements(elems, L, rng, spec['n_elem'])
        judge_residual(acc, cap['residual'], elems, sample, w, 'driver|%s-%s|loop%d' % (spec['problem'], spec['domain'], li), classes)


def run_replica(spec, acc):
    import numpy as np
    from ..monitor import repo_frame
    from ..workloads import slpairs
    import problems
    from src import initial_mesh as IM
    from src.error_estimator import ErrorEstimator
    from src.initial_potential import InitialOperator
    from src.single_layer import SingleLayerOperator
    rng = random.Random(spec['rseed'])
    p, d = spec['problem'], spec['domain']
    ls, geo = slpairs.make_mesh(d, spec['rseed'], spec['n_ops'])
    mesh = ls.mesh
    if d == 'LShape':  # the driver's pre-split (needed for the domain mesh to match)
        for e in list(mesh.leaf_elements):
            if e.h_x > 1:
                mesh.refine_space(e)
    elems = list(mesh.leaf_elements)
    exact = spec['exact'] and d != 'Circle'
    wit0 = {'problem': p, 'domain': d, 'mesh': ls.spec, 'history': ls.history, 'pw_exact': exact}
    data = problems.problem_helper(p, d)
    classes = ['source:replica', 'problem:' + p, 'domain:' + d, 'switch:' + ('exact' if exact else 'quad'),
               'data:initial' if 'u0' in data else 'data:dirichlet']
    try:
        SL = SingleLayerOperator(mesh, pw_exact=exact)
        mat = SL.bilform_matrix(elems, elems, use_mp=False)
        rhs = np.zeros(len(elems))
        M0u0 = g = None
        if 'u0' in data:
            M0 = InitialOperator(bdr_mesh=mesh, u0=data['u0'], initial_mesh=getattr(IM, d + 'BoundaryRefined'))
            rhs = -M0.linform_vector(elems=elems, use_mp=False)
            M0u0 = data['M0u0']
        if 'g' in data:
            g = data['g']
            rhs = rhs + data['g-linform'](elems)
        Phi = np.linalg.solve(mat, rhs)
        EE = ErrorEstimator(mesh, N_poly=(5, 3, 5, 5))
        residual = EE.residual(elems, Phi, SL, M0u0, g, SL_exact_eval=exact)
    except Exception as ex:
        fr = repo_frame(ex)
        if fr is None:
            raise
        acc.violation('replica-raised:%s:%s' % (fr[0], type(ex).__name__), '%s/%s: raised %s at %s:%d' % (p, d, type(ex).__name__, fr[1], fr[2]), wit0)
        return
    sample = pick_elements(elems, geo.length, rng, spec['n_elem'])
    sample += screen_elements(acc, residual, elems, [e for _, e in sample])
    judge_residual(acc, residual, elems, sample, dict(wit0, n_elements=len(elems)), 'replica|%s-%s|%d' % (p, d, spec['rseed']), classes)


def run_shard(spec, acc):
    if spec['mode'] == 'driver':
        run_driver_shard(spec, acc)
    else:
        run_replica(spec, acc)
