"""C16 - domain quadtree: tiling, 2:1 balance and boundary-segment targeting."""
import math
import random
from fractions import Fraction

ID = 'C16'
TITLE = 'domain quadtree: squares tile the domain, 2:1 balance, unique vertices; refine_msh_bdr hits the segment'
LEVEL = 'exploration'
RULE = ('(a) all InitialMesh.refine sequences to a depth bound on the unit square, pi square and L-shape (states deduplicated by '
        'leaf set) and long random sequences run on the real mesh in lock-step with a reference quadtree (dict of float squares '
        '-> level, geometric edge adjacency, chain closure for 2:1 balance); after every call: leaves equal the model, every '
        'parent is partitioned into its four float-midpoint quadrants, leaf set == childless cells, exact area, squares, unique '
        'vertex coordinates, edge-adjacent leaves differ by <= 1 level. (b) refine_msh_bdr on a fresh mesh for every segment '
        '[k/2^l,(k+1)/2^l] of every unit piece of the boundary (end points produced by the real boundary mesh and curve, as the '
        'load-vector assembly does) in both orientations and as tuples, lists and 2x1 arrays: returns, within l+2 requested '
        'refinements (logical descent bound), a leaf that has exactly that segment as an edge; it is the only such leaf; both '
        'end points are found by vertex_from_coords and are vertices of it; plus nested chains of segments on one mesh. '
        'distinct = distinct leaf-set states + distinct (domain, piece, level, k, orientation, encoding) targets')
ASSUMPTIONS = [
    'segments are dyadic sub-intervals of a unit-length piece of a side (the precondition under which the domain mesh can be matched)',
    'coordinates compare with math.isclose(rel 1e-9) as the implementation does (pi-based coordinates differ in the last ulp)',
    'targeting on an already refined mesh is only exercised with nested chains (a segment coarser than the local leaves cannot be an edge of a leaf)',
]
REQUIRED = {t: ['domain:UnitSquare', 'domain:PiSquare', 'domain:LShape', 'seq:bfs', 'seq:random', 'seq:closure-forced',
                'target:tuple', 'target:list', 'target:array', 'target:reversed', 'target:chain', 'target:level>=5']
            for t in ('quick', 'thorough')}
TIMEOUT = {'quick': 900, 'thorough': 7200}
DOMAINS = ['UnitSquare', 'PiSquare', 'LShape']


class Runaway(BaseException):
    pass


def plan(tier, seed):
    specs = []
    for d in DOMAINS:
        specs.append({'name': 'bfs-' + d, 'mode': 'bfs', 'domain': d,
                      'depth': (4 if d != 'LShape' else 3) if tier == 'quick' else (6 if d != 'LShape' else 5)})
    for k in range(8 if tier == 'quick' else 96):
        specs.append({'name': 'rand-%d' % k, 'mode': 'random', 'rseed': seed * 4001 + k, 'n_seq': 6 if tier == 'quick' else 12,
                      'steps': 60 if tier == 'quick' else 150})
    lmax = 7 if tier == 'quick' else 10
    K = 8 if tier == 'quick' else 32
    for d in DOMAINS:
        for k in range(K):
            specs.append({'name': 'target-%s-%d' % (d, k), 'mode': 'target', 'domain': d, 'lmax': lmax, 'k': k, 'K': K,
                          'rseed': seed * 53 + k})
    return specs


# --------------------------------------------------------------------------- reference quadtree
class RefQuad:
    def __init__(self, cells):
        self.leaves = {c: 0 for c in cells}

    @staticmethod
    def quadrants(c):
        x0, y0, x1, y1 = c
        xm, ym = (x0 + x1) / 2, (y0 + y1) / 2
        return [(x0, y0, xm, ym), (xm, y0, x1, ym), (xm, ym, x1, y1), (x0, ym, xm, y1)]

    def neighbours(self, c):
        x0, y0, x1, y1 = c
        out = []
        for s in self.leaves:
            if s == c:
                continue
            sx0, sy0, sx1, sy1 = s
            if (sx0 == x1 or sx1 == x0) and sy0 < y1 and y0 < sy1:
                out.append(s)
            elif (sy0 == y1 or sy1 == y0) and sx0 < x1 and x0 < sx1:
                out.append(s)
        return out

    def refine(self, c):
        todo, S, seen = [c], [], set()
        while todo:
            a = todo.pop()
            if a in seen:
                continue
            seen.add(a)
            S.append(a)
            for n in self.neighbours(a):
                if self.leaves[n] < self.leaves[a] and n not in seen:
                    todo.append(n)
        for a in S:
            lv = self.leaves.pop(a)
            for q in self.quadrants(a):
                self.leaves[q] = lv + 1
        return len(S) - 1

    def balance(self):
        return max([abs(self.leaves[c] - self.leaves[n]) for c in self.leaves for n in self.neighbours(c)] or [0])


def cell_of(e):
    return (e.vertices[0].x, e.vertices[0].y, e.vertices[2].x, e.vertices[2].y)


def domain_area(name):
    return {'UnitSquare': Fraction(1), 'PiSquare': Fraction(math.pi) * Fraction(math.pi), 'LShape': Fraction(3)}[name]


def check_quadtree(mesh, ref, name):
    bad = []
    live = {}
    for e in mesh.leaf_elements:
        live[cell_of(e)] = e.level
    if len(live) != len(mesh.leaf_elements):
        bad.append('two leaves with the same cell')
    if ref is not None and live != ref.leaves:
        bad.append('leaves differ from the model: only impl %r, only model %r' %
                   (sorted(set(live) - set(ref.leaves))[:3], sorted(set(ref.leaves) - set(live))[:3]))
    kids = {}
    for e in mesh.elements:
        if e.parent is not None:
            kids.setdefault(id(e.parent), []).append(e)
    childless = [e for e in mesh.elements if id(e) not in kids]
    if set(map(id, childless)) != set(map(id, mesh.leaf_elements)):
        bad.append('leaf set is not the set of childless cells')
    for e in mesh.elements:
        x0, y0, x1, y1 = cell_of(e)
        if not (x0 < x1 and y0 < y1) or not math.isclose(x1 - x0, y1 - y0, rel_tol=1e-9):
            bad.append('cell is not a square: %r' % (cell_of(e), ))
        ch = kids.get(id(e))
        if ch is not None:
            if sorted(cell_of(c) for c in ch) != sorted(RefQuad.quadrants(cell_of(e))):
                bad.append('children are not the four quadrants of: %r' % (cell_of(e), ))
            if any(c.level != e.level + 1 for c in ch):
                bad.append('child level wrong under: %r' % (cell_of(e), ))
    area = sum((Fraction(c[2]) - Fraction(c[0])) * (Fraction(c[3]) - Fraction(c[1])) for c in live)
    if name != 'PiSquare':
        if area != domain_area(name):
            bad.append('leaf areas do not sum to the domain area: %s' % area)
    elif abs(float(area) - math.pi**2) > 1e-12:
        bad.append('leaf areas do not sum to the domain area: %r' % float(area))
    coords = {}
    for i, v in enumerate(mesh.vertices):
        if v.idx != i:
            bad.append('vertex idx differs from position: %r at %d' % (v.idx, i))
        if (v.x, v.y) in coords:
            bad.append('two vertices share coordinates: %r' % ((v.x, v.y), ))
        coords[(v.x, v.y)] = v
    q = RefQuad([])
    q.leaves = dict(live)
    if q.balance() > 1:
        bad.append('edge-adjacent leaves differ by more than one level: %d' % q.balance())
    return bad[:6]


def fresh(name):
    from src import initial_mesh as IM
    return getattr(IM, name)()


def run_sequences(spec, acc):
    from ..monitor import repo_frame
    name = spec['domain'] if spec['mode'] == 'bfs' else None

    def build(dname, hist):
        mesh = fresh(dname)
        ref = RefQuad([cell_of(e) for e in mesh.leaf_elements])
        forced = 0
        for cell in hist:
            e = [x for x in mesh.leaf_elements if cell_of(x) == cell][0]
            mesh.refine(e)
            forced += ref.refine(cell)
        return mesh, ref, forced

    def judge(dname, hist, kind):
        try:
            mesh, ref, forced = build(dname, hist)
        except Exception as ex:
            fr = repo_frame(ex)
            if fr is None:
                raise
            acc.violation('quadtree-refine-raised:%s:%s' % (fr[0], type(ex).__name__),
                          '%s: refine raised %s at %s:%d' % (dname, type(ex).__name__, fr[1], fr[2]), {'domain': dname, 'history': hist})
            return None
        bad = check_quadtree(mesh, ref, dname)
        for b in bad[:2]:
            acc.violation('quadtree:' + b.split(':')[0].split(' %')[0][:45].replace(' ', '-'), '%s: %s' % (dname, b),
                          {'domain': dname, 'history': hist})
        acc.seen('domain:' + dname)
        acc.seen('seq:' + kind)
        if forced:
            acc.seen('seq:closure-forced')
        return ref

    if spec['mode'] == 'bfs':
        seen = set()
        frontier = [()]
        for level in range(spec['depth'] + 1):
            nxt = []
            for hist in frontier:
                ref = judge(name, list(hist), 'bfs')
                if ref is None:
                    continue
                key = frozenset(ref.leaves)
                acc.case(None, None)
                if key in seen:
                    continue
                seen.add(key)
                acc.distinct.add(__import__('hashlib').md5(repr(sorted(ref.leaves)).encode()).hexdigest()[:12])
                if level < spec['depth']:
                    for c in sorted(ref.leaves):
                        nxt.append(hist + (c, ))
            frontier = nxt
        acc.count('bfs_states', len(seen))
        acc.sample({'domain': name, 'depth': spec['depth'], 'states': len(seen)}, 'bfs')
        return
    rng = random.Random(spec['rseed'])
    for s in range(spec['n_seq']):
        dname = DOMAINS[(spec['rseed'] + s) % 3]
        mesh = fresh(dname)
        ref = RefQuad([cell_of(e) for e in mesh.leaf_elements])
        hist = []
        deep = rng.random() < 0.5
        for step in range(spec['steps']):
            leaves = sorted(ref.leaves)
            if deep:  # bias towards a corner: long chains of forced refinements
                c = min(leaves, key=lambda c: (c[0] - 0.3)**2 + (c[1] - 0.2)**2 + rng.random() * 1e-3 * (step % 3))
                if rng.random() < 0.4:
                    c = leaves[rng.randrange(len(leaves))]
            else:
                c = leaves[rng.randrange(len(leaves))]
            if c[2] - c[0] < 1e-5:
                continue
            e = [x for x in mesh.leaf_elements if cell_of(x) == c][0]
            hist.append(c)
            try:
                mesh.refine(e)
            except Exception as ex:
                fr = repo_frame(ex)
                if fr is None:
                    raise
                acc.violation('quadtree-refine-raised:%s:%s' % (fr[0], type(ex).__name__),
                              '%s: refine raised %s at %s:%d' % (dname, type(ex).__name__, fr[1], fr[2]), {'domain': dname, 'history': hist})
                break
            if ref.refine(c):
                acc.seen('seq:closure-forced')
            if step % 10 == 9 or step == spec['steps'] - 1:
                bad = check_quadtree(mesh, ref, dname)
                for b in bad[:2]:
                    acc.violation('quadtree:' + b.split(':')[0].split(' %')[0][:45].replace(' ', '-'), '%s: %s' % (dname, b),
                                  {'domain': dname, 'history': hist})
                acc.case(None, None)
                if bad:
                    break
        acc.seen('domain:' + dname)
        acc.seen('seq:random')
        acc.distinct.add('R%d-%d' % (spec['rseed'], s))
        acc.worst_of('max_level', max(ref.leaves.values()))
        if s == 0:
            acc.sample({'domain': dname, 'first_cells': hist[:5], 'n_refine': len(hist), 'leaves': len(ref.leaves)}, 'rand')


# --------------------------------------------------------------------------- boundary targeting
def unit_pieces(dname):
    """[(piece label, boundary element on the real boundary mesh)] - produced with the real curve and mesh."""
    from src.mesh import MeshParametrized
    from src import parametrization as P
    gamma = getattr(P, dname)()
    mesh = MeshParametrized(gamma)
    if dname == 'LShape':
        for e in list(mesh.leaf_elements):
            if e.h_x > 1:
                mesh.refine_space(e)
    return gamma, mesh


def run_targets(spec, acc):
    import numpy as np
    from ..monitor import repo_frame, wrap_method
    from src import initial_mesh as IM
    dname = spec['domain']
    rng = random.Random(spec['rseed'])
    gamma, bmesh = unit_pieces(dname)
    # all dyadic sub-intervals of every unit piece, by real space bisection of the boundary mesh
    segs = []
    frontier = [(e, 0, i, 0) for i, e in enumerate(list(bmesh.leaf_elements))]
    while frontier:
        nxt = []
        for e, l, piece, k in frontier:
            segs.append((piece, l, k, e))
            if l < spec['lmax']:
                c1, c2 = bmesh.refine_space(e) if not e.children else e.children
                nxt.append((c1, l + 1, piece, 2 * k))
                nxt.append((c2, l + 1, piece, 2 * k + 1))
        frontier = nxt
    state = {'n': 0, 'limit': 0}

    def before(mon, args, kwargs):
        if mon.depth == 0:
            state['n'] += 1
            if state['n'] > state['limit']:
                raise Runaway()

    mon = wrap_method(IM.InitialMesh, 'refine', before=before)
    try:
        todo = [s for j, s in enumerate(segs) if j % spec['K'] == spec['k']]
        for piece, l, k, e in todo:
            c, d = e.space_interval
            p0 = np.asarray(e.gamma_space(c), dtype=float).reshape(2)
            p1 = np.asarray(e.gamma_space(d), dtype=float).reshape(2)
            encs = ['tuple', 'list', 'array'] if (l <= 4 or (k + l) % 3 == 0) else [['tuple', 'list', 'array'][(k + l) % 3]]
            for rev in (False, True):
                for enc in encs:
                    a, b = (p1, p0) if rev else (p0, p1)
                    if enc == 'tuple':
                        A, B = tuple(a.tolist()), tuple(b.tolist())
                    elif enc == 'list':
                        A, B = a.tolist(), b.tolist()
                    else:
                        A, B = a.reshape(2, 1).copy(), b.reshape(2, 1).copy()
                    wit = {'domain': dname, 'piece': piece, 'level': l, 'k': k, 'v0': a.tolist(), 'v1': b.tolist(),
                           'encoding': enc, 'reversed': rev}
                    mesh = fresh(dname)
                    target_one(acc, mesh, A, B, p0, p1, l + 2, state, wit, dname)
                    acc.case('%s|%d|%d|%d|%s|%s' % (dname, piece, l, k, enc, rev), None)
                    acc.seen('target:' + enc)
                    if rev:
                        acc.seen('target:reversed')
                    if l >= 5:
                        acc.seen('target:level>=5')
            acc.seen('domain:' + dname)
        # nested chains on one mesh
        for _ in range(6):
            piece, l, k, e = segs[rng.randrange(len(bmesh.roots))] if False else rng.choice([s for s in segs if s[1] == 0])
            mesh = fresh(dname)
            cur = e
            for depth in range(spec['lmax']):
                c, d = cur.space_interval
                p0 = np.asarray(cur.gamma_space(c), dtype=float).reshape(2)
                p1 = np.asarray(cur.gamma_space(d), dtype=float).reshape(2)
                wit = {'domain': dname, 'piece': piece, 'chain_depth': depth, 'v0': p0.tolist(), 'v1': p1.tolist()}
                if not target_one(acc, mesh, tuple(p0.tolist()), tuple(p1.tolist()), p0, p1, 3, state, wit, dname):
                    break
                acc.seen('target:chain')
                acc.case(None, None)
                if not cur.children:
                    break
                cur = cur.children[rng.randrange(2)]
        acc.sample({'domain': dname, 'targets_in_shard': len(todo), 'lmax': spec['lmax'],
                    'example': {'piece': todo[-1][0], 'level': todo[-1][1], 'k': todo[-1][2]} if todo else None}, 'target')
    finally:
        mon.uninstall()


def target_one(acc, mesh, A, B, p0, p1, limit, state, wit, dname):
    from ..monitor import repo_frame
    state['n'], state['limit'] = 0, limit
    try:
        cell = mesh.refine_msh_bdr(A, B)
    except Runaway:
        acc.violation('bdr-target-nonterminating', '%s: more than %d requested refinements' % (dname, limit), wit)
        return False
    except Exception as ex:
        fr = repo_frame(ex)
        if fr is None:
            raise
        acc.violation('bdr-target-raised:%s:%s' % (fr[0], type(ex).__name__),
                      '%s: refine_msh_bdr raised %s at %s:%d' % (dname, type(ex).__name__, fr[1], fr[2]), wit)
        return False
    acc.worst_of('requested_refinements', state['n'])
    close = lambda u, v: math.isclose(u[0], v[0], rel_tol=1e-9, abs_tol=0.0) and math.isclose(u[1], v[1], rel_tol=1e-9, abs_tol=0.0)

    def has_edge(c):
        vs = [(v.x, v.y) for v in c.vertices]
        for i in range(4):
            u, w = vs[i], vs[(i + 1) % 4]
            if (close(u, p0) and close(w, p1)) or (close(u, p1) and close(w, p0)):
                return True
        return False

    ok = True
    if cell is None or cell not in mesh.leaf_elements:
        acc.violation('bdr-target-not-a-leaf', '%s: returned %r which is not a leaf' % (dname, cell), wit)
        return False
    if not has_edge(cell):
        acc.violation('bdr-target-wrong-cell', '%s: returned cell %r does not have the segment as an edge' % (dname, cell), wit)
        ok = False
    others = [c for c in mesh.leaf_elements if c is not cell and has_edge(c)]
    if others:
        acc.violation('bdr-target-not-unique', '%s: %d further leaves have the segment as an edge' % (dname, len(others)), wit)
        ok = False
    for P in (A, B):
        try:
            v = mesh.vertex_from_coords(P)
        except Exception as ex:
            fr = repo_frame(ex)
            if fr is None:
                raise
            acc.violation('vertex-from-coords-raised:%s' % type(ex).__name__, '%s: vertex_from_coords raised at %s:%d' % (dname, fr[1], fr[2]), wit)
            ok = False
            continue
        if v is None or v not in cell.vertices:
            acc.violation('bdr-endpoint-not-a-vertex', '%s: end point %r -> %r is not a vertex of the returned cell' % (dname, P, v), wit)
            ok = False
    bad = check_quadtree(mesh, None, dname)
    for b in bad[:1]:
        acc.violation('quadtree-after-target:' + b.split(':')[0].split(' %')[0][:40].replace(' ', '-'), '%s: %s' % (dname, b), wit)
        ok = False
    return ok


def run_shard(spec, acc):
    if spec['mode'] == 'target':
        run_targets(spec, acc)
    else:
        run_sequences(spec, acc)


def finalize(m, tier):
    return {'states': int(m['counters'].get('bfs_states', 0))}
