"""C14 - Slobodeckij seminorm quadratures are exact on polynomials and invariant."""
import math
import random
from fractions import Fraction as Fr

ID = 'C14'
TITLE = 'squared H^1/2 and H^1/4 seminorm routines: polynomial exactness, sign, scaling, translation, curve-aware variants'
LEVEL = 'exploration'
RULE = ('for every order N in {1,3,...,21} (and 23 for the H^1/4 rule, requested as Slobodeckij(23, 21)), seeded intervals with '
        '1e-3 <= b-a <= 1e3 (log-uniform, decimal and dyadic) and polynomials of every degree <= (N-1)/2 with random rational '
        'coefficients in the interval\'s affine coordinate, the real seminorm_h_1_4 / seminorm_h_1_2 are compared with the exact '
        'rational closed form of the double integral (tolerance 1e-12*(1+kappa), kappa = sup|p|/osc p). Further: non-negativity, '
        'zero on constants, |lambda f|^2 = lambda^2 |f|^2, translation of function and interval together, curve-aware variant on a '
        'rigidly placed straight segment == flat variant, two straight pieces meeting in a corner (seminorm_h_1_2_pw) against a graded '
        'reference of the double integral with Euclidean distances. distinct = distinct (routine, order, interval, polynomial / relation)')
RULE += ' ' + 'Every second interval uses an object built with two different orders, Slobodeckij(22-N, N): seminorm_h_1_4 must be exact to (22-N-1)/2, seminorm_h_1_2 to (N-1)/2.'
ASSUMPTIONS = [
    'the routines difference point values, so any implementation loses digits proportional to kappa = sup|p| / osc p; polynomials are '
    'drawn with O(1) coefficients in the interval\'s own coordinate and the tolerance is 1e-12*(1+kappa)',
    'corner case: data polynomial of degree <= 2 in the embedded coordinates; the cross term is not polynomial, so the tolerance there is '
    'by order and size ratio (equal pieces: 1e-7 at order 17, 1e-8 at 21; ratio 2: 3e-4 / 3e-5), >= 30x the largest error measured on '
    'the unchanged tree, against a reference computed at two resolutions',
    'exact references in Fraction arithmetic (stbemv/oracles/slobo.py), validated against the two closed values the repository quotes',
]
REQUIRED = {t: ['routine:h_1_4', 'routine:h_1_2', 'routine:h_1_2-curve', 'routine:h_1_2_pw', 'order:1', 'order:21', 'order:23(h_1_4)',
                'rel:nonnegative', 'rel:constant', 'rel:scaling', 'rel:translation', 'interval:small', 'interval:large', 'degree:max', 'corner:repo-line-pieces', 'corner:same-intervals-sequence', 'ctor:two-different-orders', 'corner:one-callable-for-both-pieces']
            for t in ('quick', 'thorough')}
TIMEOUT = {'quick': 600, 'thorough': 3600}
ORDERS = list(range(1, 22, 2))
EPS = 2.220446049250313e-16


def plan(tier, seed):
    specs = []
    for N in ORDERS + [23]:
        specs.append({'name': 'order-%d' % N, 'N': N, 'n_int': 40 if tier == 'quick' else 300, 'rseed': seed * 997 + N})
    specs.append({'name': 'corner', 'corner': True, 'rseed': seed, 'n': 8 if tier == 'quick' else 60})
    return specs


def rand_interval(rng):
    kind = rng.choice(['log', 'decimal', 'dyadic', 'log', 'decimal', 'dyadic', 'unit'])
    if kind == 'unit':   # translated copies of the reference interval (and [0,1] itself): shortcuts on h == 1 must still look at a
        h = 1.0
        a = float(rng.choice([0, 2, -1, 5, -3, 1]))
    elif kind == 'log':
        h = 10**rng.uniform(-3, 3)
        a = rng.uniform(-2, 2) * h
    elif kind == 'decimal':
        h = rng.choice([0.001, 0.01, 0.1, 0.3, 1.0, 2.5, 10.0, 100.0, 1000.0])
        a = rng.choice([0.0, 0.1 * h, -0.7 * h, 1.3 * h, -h])
    else:
        h = 2.0**rng.randint(-9, 9)
        a = rng.randint(-3, 3) * h
    return float(a), float(a + h)


def make_poly(rng, deg, a, b):
    """Polynomial of exact degree `deg` in u = (x-mid)/(h/2) with small rational coefficients; returns
    (coefficients in x as Fractions, float callable)."""
    mid = (Fr(a) + Fr(b)) / 2
    half = (Fr(b) - Fr(a)) / 2
    cu = [Fr(rng.randint(-6, 6), rng.randint(1, 4)) for _ in range(deg + 1)]
    if deg >= 1 and cu[deg] == 0:
        cu[deg] = Fr(1)
    if deg >= 1 and all(c == 0 for c in cu[1:]):
        cu[1] = Fr(1)
    # expand p(x) = sum cu[k] ((x-mid)/half)^k
    from math import comb
    cx = [Fr(0)] * (deg + 1)
    for k, c in enumerate(cu):
        for j in range(k + 1):
            cx[j] += c * comb(k, j) * (-mid)**(k - j) / half**k
    cuf = [float(c) for c in cu]
    midf, halff = float(mid), float(half)

    def f(x):
        import numpy as np
        u = (np.asarray(x, dtype=float) - midf) / halff
        out = np.zeros_like(u)
        for c in reversed(cuf):
            out = out * u + c
        return out
    return cx, f, cuf


def kappa(cuf):
    import numpy as np
    u = np.linspace(-1, 1, 401)
    v = np.polyval(list(reversed(cuf)), u)
    osc = float(v.max() - v.min())
    return float(np.abs(v).max()) / osc if osc > 0 else float('inf')


def run_shard(spec, acc):
    if spec.get('corner'):
        return run_corner(spec, acc)
    import numpy as np
    from ..monitor import repo_frame
    from ..oracles import slobo
    from src.norms import Slobodeckij
    N = spec['N']
    rng = random.Random(spec['rseed'])
    wit0 = {'order': N}
    try:
        S = Slobodeckij(N) if N <= 21 else Slobodeckij(N, 21)
    except Exception as ex:
        fr = repo_frame(ex)
        if fr is None:
            raise
        acc.violation('slobodeckij-ctor-raised:%s' % type(ex).__name__, 'Slobodeckij(%d%s) raised %s at %s:%d' %
                      (N, '' if N <= 21 else ', 21', type(ex).__name__, fr[1], fr[2]), wit0)
        return
    routines = [('h_1_4', N)] + ([('h_1_2', N)] if N <= 21 else [])
    acc.seen('order:%d' % N if N <= 21 else 'order:23(h_1_4)')
    # the two orders are separate constructor arguments: a second object with a different H^{1/4} order (higher for small N, lower for
    # large N) must be exact up to (N14-1)/2 in seminorm_h_1_4 and up to (N-1)/2 in seminorm_h_1_2
    S_same, routines_same, S_mixed = S, routines, None
    if N <= 21:
        N14 = 22 - N if 22 - N != N else 3
        try:
            S_mixed = Slobodeckij(N14, N)
        except Exception as ex:
            fr = repo_frame(ex)
            if fr is None:
                raise
            acc.violation('slobodeckij-ctor-raised:%s' % type(ex).__name__, 'Slobodeckij(%d, %d) raised %s at %s:%d' % (N14, N, type(ex).__name__, fr[1], fr[2]), wit0)
    for i_int in range(spec['n_int']):
        a, b = rand_interval(rng)
        h = b - a
        if S_mixed is not None and i_int % 2 == 1:
            S, routines = S_mixed, [('h_1_4', N14), ('h_1_2', N)]
            acc.seen('ctor:two-different-orders')
        else:
            S, routines = S_same, routines_same
        acc.seen('interval:small' if h < 0.01 else ('interval:large' if h > 100 else 'interval:medium'))
        for routine, order in routines:
            dmax = (order - 1) // 2
            for deg in range(0, dmax + 1):
                cx, f, cuf = make_poly(rng, deg, a, b)
                w = dict(wit0, routine=routine, interval=[a, b], degree=deg, coefficients_in_u=cuf)
                try:
                    if routine == 'h_1_4':
                        got = float(S.seminorm_h_1_4(f, a, b))
                        exact = float(slobo.h14_exact_rational(cx, Fr(a), Fr(b))) * math.sqrt(h)
                    else:
                        got = float(S.seminorm_h_1_2(f, a, b))
                        exact = float(slobo.h12_exact(cx, Fr(a), Fr(b)))
                except Exception as ex:
                    fr = repo_frame(ex)
                    if fr is None:
                        raise
                    acc.violation('seminorm-raised:%s:%s' % (routine, type(ex).__name__), 'raised at %s:%d' % (fr[1], fr[2]), w)
                    continue
                acc.case('%s|%d|%r|%r|%d|%r' % (routine, N, a, b, deg, cuf), None)
                acc.seen('routine:' + routine)
                if deg == dmax:
                    acc.seen('degree:max')
                acc.seen('rel:nonnegative')
                if not (got >= 0) or not np.isfinite(got):
                    acc.violation('seminorm-negative:' + routine, '%s order %d on [%r,%r]: %r' % (routine, order, a, b, got), w)
                    continue
                if deg == 0:
                    acc.seen('rel:constant')
                    c2 = cuf[0]**2
                    if got > 64 * EPS * max(c2, 1e-300) * (1 if routine == 'h_1_2' else math.sqrt(h)) * 1e3:
                        acc.violation('seminorm-constant-nonzero:' + routine, '%s of the constant %r is %r' % (routine, cuf[0], got), w)
                    continue
                kap = kappa(cuf)
                # nodes are stored as the doubles a + h*p: their local coordinate is only good to eps*(|a|+|b|)/h
                tol = 1e-12 * (1 + kap) + 32 * EPS * (abs(a) + abs(b)) / h * (deg + 1) * (1 + kap)
                err = abs(got - exact) / exact
                acc.worst_of('%s rel.err/(1+kappa)' % routine, err / (1 + kap))
                if not (err <= tol):
                    acc.violation('seminorm-inexact:%s' % routine,
                                  '%s order %d, degree %d on [%r,%r]: %.17g, closed form %.17g (rel %.2e, kappa %.1f)' %
                                  (routine, order, deg, a, b, got, exact, err, kap), dict(w, computed=got, exact=exact))
                    continue
                # scaling
                lam = rng.choice([2.0, -3.0, 0.5, 1e3, -1e-3, 7.25])
                fn = (S.seminorm_h_1_4 if routine == 'h_1_4' else S.seminorm_h_1_2)
                g2 = float(fn(lambda x: lam * f(x), a, b))
                acc.seen('rel:scaling')
                if abs(g2 - lam * lam * got) > 1e-12 * (1 + kap) * lam * lam * got:
                    acc.violation('seminorm-scaling:' + routine, '|%r f|^2 = %r, lambda^2 |f|^2 = %r' % (lam, g2, lam * lam * got), dict(w, lam=lam))
                # translation by an exactly representable shift of the order of the interval
                s = rng.choice([1.0, -2.0, 0.5, 4.0]) * 2.0**math.floor(math.log2(h))
                if Fr(a + s) == Fr(a) + Fr(s) and Fr(b + s) == Fr(b) + Fr(s):
                    g3 = float(fn(lambda x: f(np.asarray(x) - s), a + s, b + s))
                    acc.seen('rel:translation')
                    cond = (abs(a) + abs(b) + abs(s)) / h
                    if abs(g3 - got) > (1e-12 * (1 + kap) + 64 * EPS * cond * (deg + 1) * (1 + kap)) * got:
                        acc.violation('seminorm-translation:' + routine, 'shift %r: %r vs %r' % (s, g3, got), dict(w, shift=s))
                # curve-aware variant on a rigidly placed straight segment
                if routine == 'h_1_2':
                    ang = rng.uniform(0, 2 * math.pi)
                    P0 = np.array([[rng.uniform(-2, 2)], [rng.uniform(-2, 2)]]) * max(1.0, h)
                    d = np.array([[math.cos(ang)], [math.sin(ang)]])
                    gamma = lambda xh: P0 + d * (np.asarray(xh, dtype=float) - a)
                    g4 = float(S.seminorm_h_1_2(lambda xh, gm: f(xh), a, b, gamma))
                    acc.seen('routine:h_1_2-curve')
                    cond = (float(np.abs(P0).max()) + h) / h
                    if abs(g4 - got) > (1e-12 * (1 + kap) + 64 * EPS * cond) * got:
                        acc.violation('seminorm-curve-variant-differs', 'placed segment: %r, flat: %r' % (g4, got), dict(w, angle=ang))
        if len(acc.samples) < 1:
            acc.sample({'order': N, 'interval': [a, b], 'degrees': list(range(0, (N - 1) // 2 + 1))}, 'o')


def run_corner(spec, acc):
    """seminorm_h_1_2_pw over two straight pieces meeting in a corner vs the double integral with Euclidean distances."""
    import numpy as np
    from ..monitor import repo_frame
    from ..oracles.refint import graded
    from src.norms import Slobodeckij
    rng = random.Random(spec['rseed'] + 5)
    rules = {17: Slobodeckij(17), 21: Slobodeckij(21)}   # one object per order, reused for every corner (as the estimator does)
    # ---- a sequence of corners with the SAME parameter intervals and different angles on one rule object, the pieces being
    #      temporaries that are freed after each call (anything remembered between calls must not be keyed by object identity)
    from src.parametrization import line

    def fresh_pieces(ang):
        C = np.array([0.3, -0.2])
        P0 = C - np.array([1.0, 0.0])
        P2 = C + np.array([math.cos(math.pi - ang), math.sin(math.pi - ang)])
        return line(P0, C.copy(), x_start=1.0)[0], line(C.copy(), P2, x_start=2.0)[0]

    def ref_corner(ang, n, depth):
        C = np.array([[0.3], [-0.2]])
        d2 = np.array([[math.cos(math.pi - ang)], [math.sin(math.pi - ang)]])

        def pt(xh):
            xh = np.asarray(xh, dtype=float)
            return np.where(xh <= 2.0, C + np.array([[1.0], [0.0]]) * (np.minimum(xh, 2.0) - 2.0), C + d2 * (np.maximum(xh, 2.0) - 2.0))
        Fl = lambda X: 0.6 * X[0] + 0.8 * X[1]
        tot = 0.0
        ox, ow = graded(1.0, 3.0, [1.0, 2.0, 3.0], n, depth)
        for x, wx in zip(ox, ow):
            iy, iw = graded(1.0, 3.0, [1.0, 2.0, 3.0, x], n, depth)
            X, Y = pt(np.array([x])), pt(iy)
            r2 = (X[0] - Y[0])**2 + (X[1] - Y[1])**2
            tot += wx * float(np.sum(iw * (Fl(X) - Fl(Y))**2 / r2))
        return tot
    flin = lambda xh, gm: (lambda X: 0.6 * X[0] + 0.8 * X[1])(gm(xh))
    for N in (21, ):
        for ang_deg in (90, 120, 135, 60, 100, 75):
            ang = math.radians(ang_deg)
            try:
                got = float(rules[N].seminorm_h_1_2_pw(flin, 1.0, 2.0, fresh_pieces(ang)[0], 2.0, 3.0, fresh_pieces(ang)[1]))
            except Exception as ex:
                fr = repo_frame(ex)
                if fr is None:
                    raise
                acc.violation('seminorm-pw-raised:%s' % type(ex).__name__, 'raised at %s:%d' % (fr[1], fr[2]), {'angle_deg': ang_deg})
                continue
            r2_ = ref_corner(ang, 14, 10)
            err = abs(got - r2_) / r2_
            acc.case('corner-seq|%d|%d' % (N, ang_deg), None)
            acc.seen('corner:same-intervals-sequence')
            acc.worst_of('corner sequence rel.err / 1e-8', err / 1e-8)
            if not (err <= 1e-8):
                acc.violation('seminorm-pw-inexact', 'order %d, corner of %d degrees after other corners on the same rule object: %.15g vs reference %.15g (rel %.2e)'
                              % (N, ang_deg, got, r2_, err), {'order': N, 'angle_deg': ang_deg, 'sequence': [90, 120, 135, 60, 100, 75]})
    for case in range(spec['n']):
        N = rng.choice([17, 21])
        S = rules[N]
        ang = rng.choice([math.pi / 2, math.pi / 2, 3 * math.pi / 2, rng.uniform(0.4, 2.7), rng.uniform(3.5, 5.8)])
        h1 = rng.choice([1.0, 0.5, 0.25, 2.0])
        ratio = rng.choice([1.0, 1.0, 0.5, 2.0])
        h2 = h1 * ratio
        a1, b1 = 1.0, 1.0 + h1
        a2, b2 = b1, b1 + h2
        C = np.array([[rng.uniform(-1, 1)], [rng.uniform(-1, 1)]])
        d1 = np.array([[1.0], [0.0]])
        d2 = np.array([[math.cos(math.pi - ang)], [math.sin(math.pi - ang)]])  # interior angle `ang` at the corner
        if case % 2 == 0:
            # the pieces as the repository builds them for a polygon: parametrization.line(a, b, x_start)
            from src.parametrization import line
            P0 = (C - d1 * h1).ravel()
            P2 = (C + d2 * h2).ravel()
            g1, _ = line(P0, C.ravel().copy(), x_start=a1)
            g2, _ = line(C.ravel().copy(), P2, x_start=a2)
            acc.seen('corner:repo-line-pieces')
        else:
            g1 = lambda xh: C + d1 * (np.asarray(xh, dtype=float) - b1)
            g2 = lambda xh: C + d2 * (np.asarray(xh, dtype=float) - a2)
        if case % 3 == 2:
            # one arc-length callable for the whole two-piece curve, passed for both pieces (as a PiecewiseParametrization.eval would be)
            def whole(xh, p1=g1, p2=g2, b1=b1, a2=a2):
                xh = np.asarray(xh, dtype=float)
                return np.where(xh <= b1, p1(np.minimum(xh, b1)), p2(np.maximum(xh, a2)))
            g1 = g2 = whole
            acc.seen('corner:one-callable-for-both-pieces')
        c = [rng.uniform(-1, 1) for _ in range(6)]

        def F(X):
            x, y = X[0], X[1]
            return c[0] + c[1] * x + c[2] * y + c[3] * x * y + c[4] * x * x + c[5] * y * y
        f = lambda xh, gm: F(gm(xh))
        w = {'order': N, 'angle': ang, 'h1': h1, 'h2': h2, 'corner': C.ravel().tolist(), 'coefs': c}
        try:
            got = float(S.seminorm_h_1_2_pw(f, a1, b1, g1, a2, b2, g2))
        except Exception as ex:
            fr = repo_frame(ex)
            if fr is None:
                raise
            acc.violation('seminorm-pw-raised:%s' % type(ex).__name__, 'raised at %s:%d' % (fr[1], fr[2]), w)
            continue

        def ref(n, depth):
            # union interval [a1, b2] with pieces; integrand (f(x)-f(y))^2/|X-Y|^2, graded towards x=y and the corner
            def pt(xh):
                xh = np.asarray(xh, dtype=float)
                return np.where(xh <= b1, g1(np.minimum(xh, b1)), g2(np.maximum(xh, a2)))
            total = 0.0
            ox, ow = graded(a1, b2, [a1, b1, b2], n, depth)
            for x, wx in zip(ox, ow):
                iy, iw = graded(a1, b2, [a1, b1, b2, x], n, depth)
                X = pt(np.array([x]))
                Y = pt(iy)
                r2 = (X[0] - Y[0])**2 + (X[1] - Y[1])**2
                val = (F(X) - F(Y))**2 / r2
                total += wx * float(np.sum(iw * val))
            return total
        r1, r2_ = ref(10, 8), ref(14, 10)
        if abs(r1 - r2_) > 1e-9 * abs(r2_):
            acc.count('corner_reference_not_converged')
            continue
        err = abs(got - r2_) / r2_
        acc.case('corner|%d|%r|%r|%r' % (N, ang, h1, h2), None)
        acc.seen('routine:h_1_2_pw')
        # tolerance by order and size ratio: >= 30x the largest error measured on the unchanged tree
        # (equal sizes: 5.4e-10 at order 17, 7.7e-11 at 21; ratio 2: 9.4e-6 at 17, 9e-7 at 21)
        tol = {(17, True): 1e-7, (21, True): 1e-8, (17, False): 3e-4, (21, False): 3e-5}[(N, ratio == 1.0)]
        acc.worst_of('corner rel.err / tolerance', err / tol)
        if not (err <= tol):
            acc.violation('seminorm-pw-inexact', 'order %d, angle %.3f: %.15g vs reference %.15g (rel %.2e)' % (N, ang, got, r2_, err),
                          dict(w, computed=got, reference=r2_))
        if case == 0:
            acc.sample(dict(w, computed=got, reference=r2_), 'corner')
