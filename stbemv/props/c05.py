"""C05 - every tabulated quadrature rule is exact for its advertised function class.

Complete enumeration of a finite space: all keys of all seven rule families x all monomial degrees of
the advertised class, once on the doubles the real functions return and once on the literals as
written in the source (re-read with ast into 60-digit mpmath numbers).
"""
import ast
import os

ID = 'C05'
TITLE = 'tabulated rules exact for their advertised class'
LEVEL = 'exploration'
RULE = ('all keys are enumerated from three sources united: the exported lists, the comparisons in every rule '
        "function's if/elif chain (read with ast), and the keys the scheme constructors of quadrature.py request "
        'for every admissible order; for every key the real function is called (monitor: returns a pair, equal '
        'lengths, nodes strictly in (0,1), weights of one sign, never None) and every monomial of the advertised '
        'class is integrated exactly in mpmath (60 digits): 1e-13 relative on the returned doubles, 1e-30 on the '
        'literals of the source text. A case is one (family, key, moment, representation); distinct counts them')
RULE += ' ' + 'A further shard requests rules BY DEGREE through the real scheme constructors of quadrature.py (degrees 0..70 of the one-argument ones, all pairs -1..23 of the two-argument ones): every request that is served must be exact for the whole requested class on the returned doubles.'
ASSUMPTIONS = [
    'advertised class: log(Np,Nl): x^k k<=Np, x^k log x k<=Nl; log_log: additionally x^k log(1-x) k<=Nl; '
    'sqrt: x^k k<=Np, x^(k+1/2) k<=Ns; sqrtinv: x^k k<=Np, x^(k-1/2) k<=Ns; Gauss families with key N: '
    'monomials of degree <= 2N-1 against the weight 1/sqrt(x), x, log x (what the constructors in quadrature.py rely on)',
    'exact moments computed in mpmath at 60 digits',
    'the 1e-30 clause is an execution of the oracle on the literals parsed from the source text, not a proof',
]
REQUIRED = {t: ['family:log', 'family:log_log', 'family:sqrt', 'family:sqrtinv', 'family:gauss_sqrtinv',
                'family:gauss_x', 'family:gauss_log', 'repr:double', 'repr:literal', 'exported-key', 'constructor:gauss', 'constructor:gauss_log', 'constructor:gauss_x',
                'constructor:gauss_sqrtinv', 'constructor:log', 'constructor:sqrtinv']
            for t in ('quick', 'thorough')}

FAMILIES = {
    'log': ('log_quadrature_rule', 'LOG_QUAD_RULES', 2),
    'log_log': ('log_log_quadrature_rule', 'LOG_LOG_QUAD_RULES', 2),
    'sqrt': ('sqrt_quadrature_rule', 'SQRT_QUAD_RULES', 2),
    'sqrtinv': ('sqrtinv_quadrature_rule', 'SQRTINV_QUAD_RULES', 2),
    'gauss_sqrtinv': ('gauss_sqrtinv_quadrature_rule', None, 1),
    'gauss_x': ('gauss_x_quadrature_rule', None, 1),
    'gauss_log': ('gauss_log_quadrature_rule', None, 1),
}


def plan(tier, seed):
    return [{'name': fam, 'family': fam} for fam in FAMILIES] + [{'name': 'constructors', 'family': None, 'constructors': True}]


# ---------------------------------------------------------------------------
def _const(node):
    if isinstance(node, ast.Constant):
        return node.value
    if isinstance(node, ast.UnaryOp) and isinstance(node.op, ast.USub):
        return -_const(node.operand)
    if isinstance(node, ast.Tuple):
        return tuple(_const(e) for e in node.elts)
    raise ValueError(ast.dump(node))


def branches(src, fname):
    """[(key, branch body statements)] of the if/elif chain of function fname."""
    tree = ast.parse(src)
    fn = [n for n in tree.body if isinstance(n, ast.FunctionDef) and n.name == fname][0]
    out = []
    node = [n for n in fn.body if isinstance(n, ast.If)][0]
    while isinstance(node, ast.If):
        test = node.test
        if isinstance(test, ast.Compare) and len(test.ops) == 1 and isinstance(test.ops[0], ast.Eq):
            out.append((_const(test.comparators[0]), node.body))
        node = node.orelse[0] if node.orelse and isinstance(node.orelse[0], ast.If) else None
    return out


def literal_rule(src, body):
    """(nodes, weights) as lists of literal strings, exactly as written, from the branch's return (or bare
    expression statement, which is how a forgotten `return` looks)."""
    for st in body:
        if isinstance(st, (ast.Return, ast.Expr)) and isinstance(st.value, ast.Tuple) and len(st.value.elts) == 2:
            halves = []
            for part in st.value.elts:
                if not isinstance(part, ast.Tuple):
                    return None, False
                halves.append([ast.get_source_segment(src, e).replace(' ', '') for e in part.elts])
            return halves, isinstance(st, ast.Return)
    return None, False


def moments(fam, key, mp):
    """[(label, f, exact)] of the advertised class."""
    out = []
    one = mp.mpf(1)
    half = one / 2
    if fam in ('log', 'log_log'):
        Np, Nl = key
        for k in range(0, Np + 1):
            out.append(('x^%d' % k, (lambda k: lambda x: x**k)(k), one / (k + 1)))
        for k in range(0, Nl + 1):
            out.append(('x^%d log x' % k, (lambda k: lambda x: x**k * mp.log(x))(k), -one / (k + 1)**2))
        if fam == 'log_log':
            for k in range(0, Nl + 1):
                H = sum(one / j for j in range(1, k + 2))
                out.append(('x^%d log(1-x)' % k, (lambda k: lambda x: x**k * mp.log(1 - x))(k), -H / (k + 1)))
    elif fam == 'sqrt':
        Np, Ns = key
        for k in range(0, Np + 1):
            out.append(('x^%d' % k, (lambda k: lambda x: x**k)(k), one / (k + 1)))
        for k in range(0, Ns + 1):
            out.append(('x^%d sqrt x' % k, (lambda k: lambda x: x**k * mp.sqrt(x))(k), one / (k + 1 + half)))
    elif fam == 'sqrtinv':
        Np, Ns = key
        for k in range(0, Np + 1):
            out.append(('x^%d' % k, (lambda k: lambda x: x**k)(k), one / (k + 1)))
        for k in range(0, Ns + 1):
            out.append(('x^%d/sqrt x' % k, (lambda k: lambda x: x**k / mp.sqrt(x))(k), one / (k + half)))
    elif fam == 'gauss_sqrtinv':
        for k in range(0, 2 * key):
            out.append(('w=1/sqrt x: x^%d' % k, (lambda k: lambda x: x**k)(k), one / (k + half)))
    elif fam == 'gauss_x':
        for k in range(0, 2 * key):
            out.append(('w=x: x^%d' % k, (lambda k: lambda x: x**k)(k), one / (k + 2)))
    elif fam == 'gauss_log':
        for k in range(0, max(2 * key, 1)):
            out.append(('w=log x: x^%d' % k, (lambda k: lambda x: x**k)(k), -one / (k + 1)**2))
    return out


def constructor_keys(fam):
    """Keys that quadrature.py's scheme constructors request for every admissible order."""
    keys = set()
    if fam == 'gauss_sqrtinv':
        for N_poly in range(1, 24, 2):
            keys.add((N_poly + 1) // 2)
    elif fam == 'gauss_x':
        for N_poly in range(1, 22):
            keys.add((N_poly + 1) // 2)
    elif fam == 'gauss_log':
        for N_poly in range(0, 16):
            keys.add((N_poly + 1) // 2)
    return keys


def run_constructors(spec, acc):
    """Rules requested BY DEGREE through the real scheme constructors of quadrature.py: every degree 0..70 of the four one-argument
    constructors and every (degree, degree) pair of the four two-argument ones; a request that is served must be exact for the whole
    requested class (doubles, 1e-13). Which requests are served is recorded, not judged (the tables end where they end)."""
    import mpmath as mp
    from ..monitor import repo_frame
    from src import quadrature as QS
    mp.mp.dps = 60
    one = mp.mpf(1)
    half = one / 2
    served = {}
    one_arg = {
        'gauss': ('gauss_quadrature_scheme', lambda k: one / (k + 1)),
        'gauss_sqrtinv': ('gauss_sqrtinv_quadrature_scheme', lambda k: one / (k + half)),
        'gauss_x': ('gauss_x_quadrature_scheme', lambda k: one / (k + 2)),
        'gauss_log': ('gauss_log_quadrature_scheme', lambda k: -one / (k + 1)**2),
    }
    for fam, (fname, moment) in one_arg.items():
        served[fam] = []
        for N_poly in range(0, 71):
            wit = {'constructor': fname, 'degree': N_poly}
            try:
                sch = getattr(QS, fname)(N_poly)
            except AssertionError:
                continue
            except Exception as ex:
                fr = repo_frame(ex)
                if fr is None:
                    raise
                acc.violation('constructor-raised:%s:%s' % (fam, type(ex).__name__), '%s(%d) raised %s at %s:%d' % (fname, N_poly, type(ex).__name__, fr[1], fr[2]), wit)
                continue
            served[fam].append(N_poly)
            xs, ws = [mp.mpf(float(v)) for v in sch.points], [mp.mpf(float(v)) for v in sch.weights]
            acc.seen('constructor:' + fam)
            if len(xs) != len(ws) or not xs:
                acc.violation('constructor-shape:' + fam, '%s(%d): %d nodes, %d weights' % (fname, N_poly, len(xs), len(ws)), wit)
                continue
            for k in range(0, N_poly + 1):
                sm = mp.fsum(wi * xi**k for xi, wi in zip(xs, ws))
                err = abs(sm - moment(k)) / abs(moment(k))
                acc.case('ctor|%s|%d|%d' % (fam, N_poly, k), None)
                acc.worst_of('constructor:%s' % fam, float(err))
                if err > mp.mpf('1e-13'):
                    acc.violation('constructor-rule-inexact:%s' % fam, '%s(%d) (%d nodes) integrates x^%d against its weight with relative error %s where degree <= %d is requested'
                                  % (fname, N_poly, len(xs), k, mp.nstr(err, 3), N_poly), dict(wit, moment=k, error=mp.nstr(err, 5)))
                    break
    two_arg = {'log': 'log_quadrature_scheme', 'log_log': 'log_log_quadrature_scheme', 'sqrt': 'sqrt_quadrature_scheme', 'sqrtinv': 'sqrtinv_quadrature_scheme'}
    for fam, fname in two_arg.items():
        served[fam] = []
        for a in range(-1, 24):
            for b in range(-1, 24):
                try:
                    sch = getattr(QS, fname)(a, b)
                except AssertionError:
                    continue
                except Exception as ex:
                    fr = repo_frame(ex)
                    if fr is None:
                        raise
                    acc.violation('constructor-raised:%s:%s' % (fam, type(ex).__name__), '%s(%d, %d) raised %s at %s:%d' % (fname, a, b, type(ex).__name__, fr[1], fr[2]),
                                  {'constructor': fname, 'degrees': [a, b]})
                    continue
                served[fam].append([a, b])
                xs, ws = [mp.mpf(float(v)) for v in sch.points], [mp.mpf(float(v)) for v in sch.weights]
                acc.seen('constructor:' + fam)
                for label, f, exact in moments(fam, (a, b), mp):
                    sm = mp.fsum(wi * f(xi) for xi, wi in zip(xs, ws))
                    err = abs(sm - exact) / abs(exact)
                    acc.case('ctor|%s|%d,%d|%s' % (fam, a, b, label), None)
                    if err > mp.mpf('1e-13'):
                        acc.violation('constructor-rule-inexact:%s' % fam, '%s(%d, %d) integrates %s with relative error %s' % (fname, a, b, label, mp.nstr(err, 3)),
                                      {'constructor': fname, 'degrees': [a, b], 'moment': label})
                        break
    acc.extra['constructor_requests_served'] = {k: (v if len(v) < 40 else v[:40] + ['...']) for k, v in served.items()}
    acc.sample({'constructors': {k: len(v) for k, v in served.items()}}, 'constructors')


def run_shard(spec, acc):
    if spec.get('constructors'):
        return run_constructors(spec, acc)
    import mpmath as mp
    from .. import env
    from src import quadrature_rules as Q
    mp.mp.dps = 60
    fam = spec['family']
    fname, export, arity = FAMILIES[fam]
    src = open(os.path.join(env.REPO, 'src', 'quadrature_rules.py')).read()
    func = getattr(Q, fname)
    br = branches(src, fname)
    keys_branch = [k for k, _ in br]
    exported = [tuple(k) for k in getattr(Q, export)] if export else []
    ctor = constructor_keys(fam)
    # every constructor key must be tabulated unless the constructor range exceeds the table on purpose:
    # only keys <= the largest tabulated one are demanded
    if arity == 1 and keys_branch:
        ctor = {k for k in ctor if k <= max(keys_branch) and k >= min(keys_branch)}
    all_keys = list(dict.fromkeys(list(exported) + keys_branch + sorted(ctor)))
    acc.extra['keys'] = {fam: len(all_keys)}
    body_of = dict((k, b) for k, b in br)

    for key in all_keys:
        wit = {'family': fam, 'key': key}
        if key in exported:
            acc.seen('exported-key')
        args = key if arity == 2 else (key, )
        # ---- the real function, on doubles
        try:
            res = func(*args)
        except AssertionError:
            acc.violation('rule-unavailable:%s' % fam, '%s%r is named (exported list / constructor) but not tabulated'
                          % (fname, args), wit)
            acc.case('%s%r:unavail' % (fam, key), 'family:' + fam)
            continue
        acc.case('%s%r:shape' % (fam, key), 'family:' + fam)
        if res is None or not isinstance(res, tuple) or len(res) != 2:
            acc.violation('rule-returns-nothing:%s' % fam, '%s%r returned %r' % (fname, args, type(res).__name__), wit)
            continue
        x, w = res
        if len(x) != len(w) or len(x) == 0:
            acc.violation('rule-shape:%s' % fam, '%s%r: %d nodes, %d weights' % (fname, args, len(x), len(w)), wit)
            continue
        if not all(0 < float(v) < 1 for v in x):
            acc.violation('rule-nodes-outside:%s' % fam, '%s%r has a node outside (0,1)' % (fname, args), wit)
        if not (all(float(v) > 0 for v in w) or all(float(v) < 0 for v in w)):
            acc.violation('rule-weight-sign:%s' % fam, '%s%r has weights of both signs' % (fname, args), wit)
        reps = [('double', [mp.mpf(float(v)) for v in x], [mp.mpf(float(v)) for v in w], mp.mpf('1e-13'))]
        # ---- the literals as written
        if key in body_of:
            lit, has_ret = literal_rule(src, body_of[key])
            if lit is None:
                acc.violation('rule-branch-unparsed:%s' % fam, 'branch %r has no (nodes, weights) tuple' % (key, ), wit)
            else:
                if not has_ret:
                    acc.violation('rule-branch-without-return:%s' % fam, 'branch %r builds the rule but does not return it' % (key, ), wit)
                if len(lit[0]) != len(x) or len(lit[1]) != len(w):
                    acc.violation('rule-literal-count:%s' % fam, 'branch %r: literals %d/%d vs returned %d/%d' %
                                  (key, len(lit[0]), len(lit[1]), len(x), len(w)), wit)
                else:
                    lx = [mp.mpf(s) for s in lit[0]]
                    lw = [mp.mpf(s) for s in lit[1]]
                    # the function must return exactly the doubles nearest to its literals
                    if any(float(a) != float(b) for a, b in zip(lx, x)) or any(float(a) != float(b) for a, b in zip(lw, w)):
                        acc.violation('rule-literal-mismatch:%s' % fam, 'branch %r returns other numbers than written' % (key, ), wit)
                    reps.append(('literal', lx, lw, mp.mpf('1e-30')))
        for rep, xs, ws, tol in reps:
            acc.seen('repr:' + rep)
            for label, f, exact in moments(fam, key, mp):
                s = mp.fsum(wi * f(xi) for xi, wi in zip(xs, ws))
                err = abs(s - exact) / abs(exact)
                acc.case('%s%r:%s:%s' % (fam, key, label, rep), None)
                acc.worst_of('%s:%s' % (fam, rep), float(err))
                if err > tol:
                    acc.violation('rule-inexact:%s:%s:%s' % (fam, rep, str(key).replace(' ', '')),
                                  '%s%r integrates %s with relative error %s (%s, tolerance %s)' %
                                  (fname, args, label, mp.nstr(err, 3), rep, mp.nstr(tol, 1)),
                                  dict(wit, moment=label, representation=rep, error=mp.nstr(err, 5)))
        if len(acc.samples) < 2:
            acc.sample({'family': fam, 'key': key, 'n_nodes': len(x), 'first_node': float(x[0]),
                        'moments': [m[0] for m in moments(fam, key, mp)][:6]}, fam, per_class=2)
    # exported keys must all be branches
    for k in exported:
        if k not in keys_branch:
            acc.violation('rule-unavailable:%s' % fam, 'exported key %r has no branch' % (k, ), {'family': fam, 'key': k})


def finalize(m, tier):
    keys = {}
    for e in m['extra']:
        keys.update(e.get('keys', {}))
    return {'exhaustive': True, 'keys_per_family': keys, 'rules_total': sum(keys.values())}
