"""C19 - grading post-processing terminates with every leaf in the parabolic window."""
import math
import random
import sys

ID = 'C19'
TITLE = 'refine_grading: terminates, only refines, every leaf in the window, invariants kept'
LEVEL = 'exploration'
RULE = ('Mesh.refine_grading(sigma, K=4) is called on real meshes reached by bisection histories (bounded-exhaustive on '
        'the shipped curves, random histories with time/space bias 0.2/0.5/0.8) for sigma in {1, 1.5, 2}. Monitors: '
        'refine_axis recorder (leaf counter) and a line-step counter on the grading frame. Oracle: the call returns; '
        'every old leaf is the union of new leaves (parent chain of every new leaf reaches an old leaf); every new leaf '
        'satisfies h_t/K < h_x^sigma < K*h_t; tiling/bookkeeping (C02) and neighbour (C10) invariants hold afterwards. '
        'Termination is decided on logical bounds, not on time: #leaves never exceeds T*L/(ht_floor*hx_floor) with the '
        'provable size floors hx_floor=min(Hx,(K*Ht)^(1/sigma)/2), ht_floor=min(Ht,K*Hx^sigma/2), and the number of '
        'source lines executed by the grading frame between two requested bisections never exceeds 20*#leaves+1000. '
        'distinct = distinct (curve, tree signature of the input mesh, sigma)')
RULE += ' ' + 'A further group of shards uses directed histories: the leaf at one point near a corner of the space-time cylinder is bisected repeatedly in a fixed anisotropic pattern (a staircase of leaves whose levels climb by one per step), followed by a few bisections next to it.'
ASSUMPTIONS = [
    'size floors: a marked time bisection needs h_t >= K*h_x^sigma, a marked space bisection h_x^sigma >= K*h_t, and the '
    'conformity closure only bisects elements that are coarser by level; with initial roots whose sizes differ by at most a '
    'factor two per axis (all shipped curves, with or without the L-shape pre-split) closure children are never smaller '
    'than the children of the element that triggered them; for K=4 and 1<=sigma<=2 the two floors are mutually stable',
    'inputs whose bound exceeds the tier cap are skipped and counted (cost), not judged',
    'K = 4 (default) only, as the property states',
]
REQUIRED = {t: ['curve:UnitSquare', 'curve:PiSquare', 'curve:LShape', 'curve:LShape-presplit', 'curve:Circle',
                'curve:UnitInterval', 'sigma:1', 'sigma:1.5', 'sigma:2', 'bias:0.2', 'bias:0.5', 'bias:0.8',
                'grading:refined-something', 'grading:space-marked-was-time-bisected', 'grading:repeated-on-graded-mesh', 'mode:bfs', 'mode:random', 'mode:staircase']
            for t in ('quick', 'thorough')}
TIMEOUT = {'quick': 900, 'thorough': 7200}
CURVES = [('UnitSquare', False), ('PiSquare', False), ('LShape', False), ('LShape', True), ('Circle', False),
          ('UnitInterval', False)]
SIGMAS = [1, 1.5, 2]


class Runaway(BaseException):
    """Raised inside the grading frame by the step monitor to stop a non-terminating call."""


def plan(tier, seed):
    specs = []
    depth = 2 if tier == 'quick' else 4
    for ci in range(len(CURVES)):
        specs.append({'name': 'bfs-%d' % ci, 'mode': 'bfs', 'curve': ci, 'depth': depth})
    n = 26 if tier == 'quick' else 320
    for k in range(n):
        specs.append({'name': 'rand-%d' % k, 'mode': 'random', 'rseed': seed * 7877 + k,
                      'n_hist': 3 if tier == 'quick' else 6,
                      'steps': [10, 25, 40] if tier == 'quick' else [20, 60, 120, 200],
                      'cap': 30000 if tier == 'quick' else 250000})
    for k in range(8 if tier == 'quick' else 64):
        specs.append({'name': 'stair-%d' % k, 'mode': 'stair', 'rseed': seed * 7879 + k, 'n_hist': 40 if tier == 'quick' else 120, 'cap': 400000})
    return specs


def size_bound(mesh, ls, sigma, K):
    Hx = min(e.h_x for e in mesh.leaf_elements)
    Ht = min(e.h_t for e in mesh.leaf_elements)
    hx_fl = min(Hx, (K * Ht)**(1.0 / sigma) / 2)
    ht_fl = min(Ht, K * Hx**sigma / 2)
    T = ls.time_grid[-1] - ls.time_grid[0]
    L = ls.space_grid[-1] - ls.space_grid[0]
    return int(math.ceil(T * L / (hx_fl * ht_fl) * (1 + 1e-9))) + 1


def graded_call(acc, ls, log, sigma, K, wit, cap):
    """Observe one real refine_grading call. Returns 'ok' | 'viol' | 'skipped'."""
    from ..monitor import repo_frame
    from ..oracles import refmesh as rm
    from src.mesh import Mesh
    mesh = ls.mesh
    bound = size_bound(mesh, ls, sigma, K)
    if bound > cap:
        acc.count('skipped_bound_above_cap')
        return 'skipped'
    old = {rm.rect_of(e): e for e in mesh.leaf_elements}
    n0 = len(old)
    log.take()
    code = Mesh.refine_grading
    code = getattr(code, '__wrapped__', code).__code__
    state = {'lines': 0, 'events': 0, 'why': None}

    def local_trace(frame, event, arg):
        if event == 'line':
            state['lines'] += 1
            if state['lines'] & 255 == 0:
                ev = len(log.events)
                n = len(mesh.leaf_elements)
                if n > bound:
                    state['why'] = 'leaf count %d exceeds the provable bound %d' % (n, bound)
                    raise Runaway()
                if ev != state['events']:
                    state['events'] = ev
                    state['lines'] = 0
                elif state['lines'] > 20 * n + 1000:
                    state['why'] = 'no bisection requested during %d executed lines with %d leaves' % (state['lines'], n)
                    raise Runaway()
        return local_trace

    def global_trace(frame, event, arg):
        if frame.f_code is code:
            return local_trace
        return None

    sys.settrace(global_trace)
    try:
        try:
            mesh.refine_grading(sigma, K)
        finally:
            sys.settrace(None)
    except Runaway:
        acc.violation('grading-nonterminating', 'refine_grading(sigma=%r) stopped by the logical bound: %s' % (sigma, state['why']), wit)
        return 'viol'
    except Exception as ex:
        fr = repo_frame(ex)
        if fr is None:
            raise
        acc.violation('grading-raised:%s:%s' % (fr[0], type(ex).__name__),
                      'refine_grading(sigma=%r) raised %s at %s:%d' % (sigma, type(ex).__name__, fr[1], fr[2]), wit)
        return 'viol'
    ev = log.take()
    ok = True
    new = list(mesh.leaf_elements)
    if len(new) > bound:
        acc.violation('grading-exceeds-bound', 'returned with %d leaves, bound %d' % (len(new), bound), wit)
        ok = False
    acc.worst_of('leaves/bound', len(new) / bound)
    # only refines: every new leaf descends from (or is) an old leaf, and every old leaf is covered
    covered = {}
    for e in new:
        a = e
        while a is not None and old.get(rm.rect_of(a)) is not a:
            a = a.parent
        if a is None:
            acc.violation('grading-not-a-refinement', 'new leaf %r does not descend from a leaf of the input mesh' % (e, ), wit)
            ok = False
            break
        covered[id(a)] = covered.get(id(a), 0.0) + e.h_t * e.h_x
    if ok and len(covered) != n0:
        acc.violation('grading-not-a-refinement', '%d of %d input leaves are not covered by new leaves' % (n0 - len(covered), n0), wit)
        ok = False
    # window
    worst = 0.0
    for e in new:
        hx_s = e.h_x**sigma
        if not (e.h_t / K < hx_s < K * e.h_t):
            acc.violation('grading-window', 'leaf %r: h_t=%r h_x^sigma=%r outside (h_t/K, K*h_t), sigma=%r' % (e, e.h_t, hx_s, sigma), wit)
            ok = False
            break
        worst = max(worst, abs(math.log(hx_s / e.h_t)) / math.log(K))
    acc.worst_of('|log ratio|/log K', worst)
    bad, _, _ = ls_check(ls)
    for b in bad[:2]:
        acc.violation('grading-invariant:' + b.split(':')[0].split(' %')[0][:50].replace(' ', '-'), b, wit)
        ok = False
    if len(new) > n0:
        acc.seen('grading:refined-something')
    # the F4 situation: a space request (depth 0, ax 1) on an element that did not exist before the call's time sweep
    t_req = {r for r, ax, d in ev if ax == 0}
    for r, ax, d in ev:
        if ax == 1 and d == 0 and r not in old:
            par = (r[0], r[1])
            acc.seen('grading:space-marked-was-time-bisected')
            break
    acc.count('bisections_requested', sum(1 for e in ev if e[2] == 0))
    acc.count('bisections_closure', sum(1 for e in ev if e[2] > 0))
    return 'ok' if ok else 'viol'


def ls_check(ls):
    from ..oracles import refmesh as rm
    ls.ref = rm.RefMesh.from_leaves(rm.leaf_dict(ls.mesh).items(), ls.glued, ls.domain)
    bad = rm.check_structure(ls.mesh, ls.time_grid, ls.space_grid)
    irr = ls.ref.irregularity()
    if max(irr) > 1:
        bad.append('not 1-irregular after grading: level jumps %r' % (irr, ))
    b2, n_edges, stats = rm.check_neighbours(ls.mesh, ls.ref)
    return bad + b2, n_edges, stats


def spec_of(ci):
    name, presplit = CURVES[ci]
    s = {'curve': name}
    if presplit:
        s['presplit_long'] = True
    return s, name + ('-presplit' if presplit else '')


def run_shard(spec, acc):
    from ..oracles import refmesh as rm
    from ..workloads.meshes import LockStep, RefineLog
    log = RefineLog()
    try:
        if spec['mode'] == 'bfs':
            ms, cname = spec_of(spec['curve'])
            seen = set()
            frontier = [()]
            for level in range(spec['depth'] + 1):
                nxt = []
                for hist in frontier:
                    base = LockStep(ms)
                    for op in hist:
                        base.apply(op)
                    sig = rm.tree_signature(base.mesh)
                    if sig in seen:
                        continue
                    seen.add(sig)
                    for sigma in SIGMAS:
                        ls = LockStep(ms)
                        for op in hist:
                            ls.apply(op)
                        wit = {'mesh': ms, 'history': [list(o) for o in hist], 'sigma': sigma}
                        r = graded_call(acc, ls, log, sigma, 4, wit, 10**6)
                        acc.case('%s|%s|%s' % (cname, sig, sigma), None)
                        acc.seen('curve:' + cname)
                        acc.seen('sigma:%s' % sigma)
                        acc.seen('mode:bfs')
                    if level < spec['depth']:
                        n = len(base.leaves())
                        for i in range(n):
                            for ax in (0, 1):
                                nxt.append(hist + (('b', i, ax), ))
                frontier = nxt
            acc.count('bfs_states', len(seen))
            acc.sample({'curve': cname, 'depth': spec['depth'], 'states': len(seen), 'sigmas': SIGMAS}, 'bfs')
            return
        rng = random.Random(spec['rseed'])
        if spec['mode'] == 'stair':
            # directed histories: the leaf at one point is bisected again and again in a fixed anisotropic pattern (what marking does at a
            # corner singularity), which leaves a staircase of leaves whose levels climb by one per step; then a few bisections next to it
            for h in range(spec['n_hist']):
                ci = (spec['rseed'] + h) % len(CURVES)
                ms, cname = spec_of(ci)
                probe = LockStep(ms)
                T0, T1, X0, X1 = probe.domain
                brk = [x for x in probe.space_grid[1:-1]] or [(X0 + X1) / 2]
                xb = rng.choice(brk + [X0, X1])
                xp = min(max(xb + rng.choice([-1, 1]) * 2.0**-20 * (X1 - X0), X0 + 2.0**-21 * (X1 - X0)), X1 - 2.0**-21 * (X1 - X0))
                tp = rng.choice([T0 + 2.0**-20 * (T1 - T0), T1 - 2.0**-20 * (T1 - T0)])
                n0 = rng.randint(0, 3)
                pattern = rng.choice([(0, 1), (1, 0), (0, 0, 1), (0, 1, 1), (0, 1)])
                rounds = rng.randint(3, 5)
                ops = [0] * n0 + list(pattern) * rounds
                extras = [(rng.random(), rng.randrange(2)) for _ in range(rng.randint(0, 4))]
                for sigma in SIGMAS:
                    ls = LockStep(ms)
                    for ax in ops:
                        L = ls.leaves()
                        e = [q for q in L if q.time_interval[0] <= tp < q.time_interval[1] and q.space_interval[0] <= xp < q.space_interval[1]][0]
                        if e.h_t < 1e-6 or e.h_x < 1e-6:
                            break
                        ls.apply(('b', L.index(e), ax))
                    for u, ax in extras:
                        L = sorted(ls.leaves(), key=lambda q: (abs((q.time_interval[0] + q.time_interval[1]) / 2 - tp) / (T1 - T0) + abs((q.space_interval[0] + q.space_interval[1]) / 2 - xp) / (X1 - X0)))
                        e = L[int(u * min(len(L), 12))]
                        ls.apply(('b', ls.leaves().index(e), ax))
                    sig = rm.tree_signature(ls.mesh)
                    wit = {'mesh': ms, 'history': ls.history, 'sigma': sigma, 'staircase': {'point': [tp, xp], 'pattern': list(pattern), 'rounds': rounds}}
                    res = graded_call(acc, ls, log, sigma, 4, wit, spec['cap'])
                    if res == 'skipped':
                        continue
                    acc.case('%s|%s|%s|stair' % (cname, sig, sigma), None)
                    acc.seen('curve:' + cname)
                    acc.seen('sigma:%s' % sigma)
                    acc.seen('mode:staircase')
            acc.sample({'mode': 'staircase', 'histories': spec['n_hist']}, 'stair')
            return
        for h in range(spec['n_hist']):
            ci = (spec['rseed'] + h) % len(CURVES)
            ms, cname = spec_of(ci)
            ms = dict(ms)
            if rng.random() < 0.3:
                ms['time_grid'] = [0, 0.5, 1] if rng.random() < 0.5 else [0, 1, 2, 3]
            bias = [0.2, 0.5, 0.8][(spec['rseed'] // len(CURVES) + h) % 3]
            steps = rng.choice(spec['steps'])
            for sigma in SIGMAS:
                ls = LockStep(ms)
                r2 = random.Random(spec['rseed'] * 31 + h)
                for _ in range(steps):
                    L = ls.leaves()
                    e = L[r2.randrange(len(L))]
                    if e.h_t < 1e-6 or e.h_x < 1e-6:
                        continue
                    ls.apply(('b', L.index(e), 0 if r2.random() < bias else 1))
                sig = rm.tree_signature(ls.mesh)
                wit = {'mesh': ms, 'history': ls.history, 'sigma': sigma, 'bias': bias}
                res = graded_call(acc, ls, log, sigma, 4, wit, spec['cap'])
                if res == 'skipped':
                    continue
                if res == 'ok' and sigma == SIGMAS[h % 3]:
                    # a graded mesh is a reachable mesh: go on refining and grade again, with the same or another exponent
                    # (the driver grades after every marking step); state kept from an earlier call must not matter
                    for rep in range(2):
                        for _ in range(r2.randint(0, 12)):
                            L = ls.leaves()
                            e = L[r2.randrange(len(L))]
                            if e.h_t < 1e-6 or e.h_x < 1e-6:
                                continue
                            ls.apply(('b', L.index(e), 0 if r2.random() < bias else 1))
                        s2 = r2.choice(SIGMAS)
                        ls.history.append(['grading', sigma if rep == 0 and False else s2])
                        wit2 = {'mesh': ms, 'history': list(ls.history), 'sigma': s2, 'bias': bias, 'after_earlier_grading': True}
                        res2 = graded_call(acc, ls, log, s2, 4, wit2, spec['cap'])
                        if res2 != 'ok':
                            break
                        acc.seen('grading:repeated-on-graded-mesh')
                        acc.case('%s|%s|%s|rep%d' % (cname, sig, s2, rep), None)
                acc.case('%s|%s|%s' % (cname, sig, sigma), None)
                acc.seen('curve:' + cname)
                acc.seen('sigma:%s' % sigma)
                acc.seen('bias:%s' % bias)
                acc.seen('mode:random')
                acc.worst_of('max_leaves_after', len(ls.mesh.leaf_elements))
                if h == 0 and sigma == 2:
                    acc.sample({'curve': cname, 'time_grid': ms.get('time_grid', [0, 1]), 'bias': bias, 'steps': steps,
                                'sigma': sigma, 'history_head': ls.history[:6], 'leaves_after': len(ls.mesh.leaf_elements)}, 'rand')
    finally:
        log.close()


def finalize(m, tier):
    return {'states': int(m['counters'].get('bfs_states', 0)),
            'skipped_bound_above_cap': int(m['counters'].get('skipped_bound_above_cap', 0))}
