"""Accumulator that every shard fills: what the monitors actually observed."""
import hashlib
import json
from collections import Counter


def digest(obj, n=12):
    s = obj if isinstance(obj, str) else json.dumps(obj, sort_keys=True, default=repr)
    return hashlib.blake2b(s.encode(), digest_size=n // 2).hexdigest()


def jsonable(x):
    """Best-effort conversion of numpy scalars / tuples for JSON."""
    try:
        import numpy as np
    except Exception:  # pragma: no cover
        np = None
    if isinstance(x, dict):
        return {str(k): jsonable(v) for k, v in x.items()}
    if isinstance(x, (list, tuple, set, frozenset)):
        return [jsonable(v) for v in x]
    if np is not None:
        if isinstance(x, np.ndarray):
            return jsonable(x.tolist())
        if isinstance(x, np.generic):
            return x.item()
    if isinstance(x, float):
        if x != x or x in (float('inf'), float('-inf')):
            return repr(x)
        return x
    if isinstance(x, (int, str, bool)) or x is None:
        return x
    return repr(x)


class Acc:
    MAX_VIOL = 40
    MAX_SAMPLES = 6

    def __init__(self):
        self.evaluations = 0
        self.distinct = set()
        self.classes = Counter()
        self.worst = {}
        self.samples = []
        self.violations = []
        self.n_violations = 0
        self.inconclusive = []
        self.counters = Counter()
        self.extra = {}
        self._sample_classes = Counter()

    # -- observations -----------------------------------------------------
    def case(self, key=None, cls=None, n=1):
        """One checked event. key identifies a distinct non-trivial case."""
        self.evaluations += n
        if key is not None:
            self.distinct.add(key if isinstance(key, str) and len(key) <= 16 else digest(key))
        if cls is not None:
            self.classes[cls] += n

    def seen(self, cls, n=1):
        self.classes[cls] += n

    def count(self, name, n=1):
        self.counters[name] += n

    def worst_of(self, cls, val):
        val = float(val)
        if val != val:
            val = float('inf')
        if cls not in self.worst or val > self.worst[cls]:
            self.worst[cls] = val

    def sample(self, obj, cls='_', per_class=1):
        if self._sample_classes[cls] < per_class and len(self.samples) < 40:
            self._sample_classes[cls] += 1
            self.samples.append(jsonable(obj))

    def violation(self, key, msg, witness=None):
        """key names the mechanism (used for known-finding matching)."""
        self.n_violations += 1
        if len(self.violations) < self.MAX_VIOL:
            self.violations.append({'key': key, 'msg': msg, 'witness': jsonable(witness)})

    def inconclusive_because(self, reason):
        if reason not in self.inconclusive:
            self.inconclusive.append(reason)

    # -- transport --------------------------------------------------------
    def to_json(self):
        return {
            'evaluations': self.evaluations,
            'distinct': sorted(self.distinct),
            'classes': dict(self.classes),
            'worst': self.worst,
            'samples': self.samples,
            'violations': self.violations,
            'n_violations': self.n_violations,
            'inconclusive': self.inconclusive,
            'counters': dict(self.counters),
            'extra': jsonable(self.extra),
        }
