"""Reference integrals for the single-layer heat operator, independent of the repository's code paths.

Time is integrated analytically: with F(z; r) = (1/4pi) * ( z e^{-r/4z} - (r/4 + z) E1(r/4z) ) for z > 0 and 0 otherwise
one has d^2F/dz^2 = -G(z; r) (G the 2-D heat kernel at squared distance r) and F(0+) = 0, hence
    int_a^b int_c^d G(t - s; r) ds dt = F(b-d) - F(b-c) + F(a-c) - F(a-d).
Space is integrated by iterated composite Gauss-Legendre rules graded geometrically towards every point where the
integrand is not smooth. Geometry comes from `Geo`, our own description of the shipped curves (vertices / unit circle),
not from src/parametrization.py. Every value is computed at two resolutions.
"""
import math

import numpy as np
from scipy.special import exp1

FPI = 1.0 / (4.0 * math.pi)


# ---------------------------------------------------------------------------
class Geo:
    """Own geometry of the shipped curves: arc-length pieces with start parameter, start point, direction."""
    POLY = {
        'UnitSquare': [(0, 0), (1, 0), (1, 1), (0, 1), (0, 0)],
        'PiSquare': [(0, 0), (math.pi, 0), (math.pi, math.pi), (0, math.pi), (0, 0)],
        'LShape': [(0, 0), (0, -1), (1, -1), (1, 1), (-1, 1), (-1, 0), (0, 0)],
        'UnitInterval': [(0, 0), (1, 0)],
    }

    def __init__(self, name):
        self.name = name
        self.circle = name == 'Circle'
        self.closed = name != 'UnitInterval'
        if self.circle:
            self.starts = [0.0, 2 * math.pi]
            self.length = 2 * math.pi
        else:
            v = [np.array(p, dtype=float) for p in self.POLY[name]]
            self.verts = v
            self.starts = [0.0]
            self.dirs = []
            for a, b in zip(v, v[1:]):
                ln = float(np.linalg.norm(b - a))
                self.dirs.append((b - a) / ln)
                self.starts.append(self.starts[-1] + ln)
            self.length = self.starts[-1]

    def piece_of(self, x0, x1):
        """Index of the piece containing the parameter interval [x0, x1]."""
        for i in range(len(self.starts) - 1):
            if self.starts[i] <= x0 and x1 <= self.starts[i + 1]:
                return i
        raise ValueError('interval %r spans pieces' % ((x0, x1), ))

    def point(self, piece, s):
        s = np.asarray(s, dtype=float)
        if self.circle:
            return np.array([np.cos(s), np.sin(s)])
        a = self.verts[piece]
        d = self.dirs[piece]
        ds = s - self.starts[piece]
        return np.array([a[0] + d[0] * ds, a[1] + d[1] * ds])

    def dist2(self, pi, x, pj, y):
        """Squared Euclidean distance between curve points; x, y broadcastable arrays of parameters."""
        if self.circle:
            return 4.0 * np.sin((x - y) / 2.0)**2
        if pi == pj:
            return (x - y)**2
        P = self.point(pi, x)
        Q = self.point(pj, y)
        return (P[0] - Q[0])**2 + (P[1] - Q[1])**2

    def max_dist2(self, pi, x0, x1, pj, y0, y1):
        """Largest squared distance between the two pieces of curve (for rigorous lower bounds)."""
        if self.circle:
            # |x - y| mod 2pi ranges over an interval; chord is monotone in the angle up to pi
            lo, hi = x0 - y1, x1 - y0
            best = 0.0
            for k in (-1, 0, 1):
                a, b = lo + 2 * math.pi * k, hi + 2 * math.pi * k
                if a <= math.pi <= b or a <= -math.pi <= b:
                    return 4.0
                for ang in (a, b):
                    best = max(best, 4.0 * math.sin(ang / 2.0)**2)
            return best
        best = 0.0
        for x in (x0, x1):
            for y in (y0, y1):
                best = max(best, float(self.dist2(pi, np.float64(x), pj, np.float64(y))))
        return best


_GL = {}


def gl(n):
    if n not in _GL:
        x, w = np.polynomial.legendre.leggauss(n)
        _GL[n] = (0.5 * (x + 1.0), 0.5 * w)
    return _GL[n]


def graded(a, b, sing, n, depth, ratio=0.25, floor_rel=1e-11):
    """Nodes/weights on [a, b], composite Gauss-Legendre graded geometrically towards every point of `sing` in [a, b]."""
    pts = sorted({float(p) for p in sing if a <= p <= b} | {float(a), float(b)})
    singset = {float(p) for p in sing}
    scale = max(abs(a), abs(b), b - a)
    xs, ws = [], []
    gx, gw = gl(n)

    def panel(p, q):
        xs.append(p + (q - p) * gx)
        ws.append((q - p) * gw)

    def grade(p, q, towards_p):
        """[p,q] graded towards p (or q)."""
        L = q - p
        hi = 1.0
        for _ in range(depth):
            lo = hi * ratio
            if lo * L < floor_rel * scale:
                break
            if towards_p:
                panel(p + lo * L, p + hi * L)
            else:
                panel(q - hi * L, q - lo * L)
            hi = lo
        if towards_p:
            panel(p, p + hi * L)
        else:
            panel(q - hi * L, q)

    for p, q in zip(pts, pts[1:]):
        if q - p <= 0:
            continue
        sp, sq = p in singset, q in singset
        if sp and sq:
            m = 0.5 * (p + q)
            grade(p, m, True)
            grade(m, q, False)
        elif sp:
            grade(p, q, True)
        elif sq:
            grade(p, q, False)
        else:
            panel(p, q)
    return np.concatenate(xs), np.concatenate(ws)


def F_time(z, r):
    """F(z; r) for z > 0 (array r of squared distances, all > 0)."""
    u = r / (4.0 * z)
    return FPI * z * (np.exp(-u) - (u + 1.0) * exp1(u))


def time_kernel(a, b, c, d):
    """r -> int_a^b int_c^d G(t-s; r) ds dt   (test time (a,b), trial time (c,d))."""
    terms = []
    for sgn, z in ((1, b - d), (-1, b - c), (1, a - c), (-1, a - d)):
        if z > 0:
            terms.append((sgn, z))

    def K(r):
        out = np.zeros_like(r)
        for sgn, z in terms:
            out = out + sgn * F_time(z, r)
        return out
    return K, min([z for _, z in terms], default=None)


def entry(geo, test_t, test_x, trial_t, trial_x, n=12, depth=14):
    """Reference <V 1_trial, 1_test>; returns the value at resolution (n, depth)."""
    a, b = test_t
    c, d = trial_t
    if b <= c:
        return 0.0
    K, _ = time_kernel(a, b, c, d)
    x0, x1 = test_x
    y0, y1 = trial_x
    pi = geo.piece_of(x0, x1)
    pj = geo.piece_of(y0, y1)
    L = geo.length
    # points of the outer (test) variable where the inner integral is not smooth
    outer_sing = [x0, x1]
    same = (pi == pj)
    if same:
        outer_sing += [y0, y1]
    ox, ow = graded(x0, x1, outer_sing, n, depth)
    total = 0.0
    # inner rule: graded towards both ends of the trial interval and towards y = x on the same piece.
    # The inner grid depends on x only through the singular point: group outer nodes by whether x lies in [y0, y1].
    inside = same & (ox > y0) & (ox < y1) if same else np.zeros(len(ox), dtype=bool)
    if np.any(~inside):
        iy, iw = graded(y0, y1, [y0, y1], n, depth)
        X = ox[~inside][:, None]
        r = geo.dist2(pi, X, pj, iy[None, :])
        total += float(np.sum(ow[~inside][:, None] * iw[None, :] * K(r)))
    for k in np.nonzero(inside)[0]:
        x = ox[k]
        iy, iw = graded(y0, y1, [y0, y1, x], n, depth)
        r = geo.dist2(pi, x, pj, iy)
        total += float(ow[k] * np.sum(iw * K(r)))
    return total


def entry2(geo, test_t, test_x, trial_t, trial_x):
    """(value, disagreement of the two resolutions)."""
    v1 = entry(geo, test_t, test_x, trial_t, trial_x, n=12, depth=14)
    v2 = entry(geo, test_t, test_x, trial_t, trial_x, n=16, depth=16)
    return v2, abs(v2 - v1)


_DIAG = {}


def diagonal(geo, h_t, h_x):
    """Reference diagonal entry of an element of size h_t x h_x (translation/rotation invariant on every piece)."""
    key = (geo.name if geo.circle else 'straight', float(h_t), float(h_x))
    if key not in _DIAG:
        if geo.circle:
            v, _ = entry2(geo, (0.0, h_t), (1.0, 1.0 + h_x), (0.0, h_t), (1.0, 1.0 + h_x))
        else:
            g = Geo('UnitInterval') if h_x <= 1 else None
            if g is None:
                g = geo
                p = max(range(len(geo.starts) - 1), key=lambda i: geo.starts[i + 1] - geo.starts[i])
                x0 = geo.starts[p]
                v, _ = entry2(g, (0.0, h_t), (x0, x0 + h_x), (0.0, h_t), (x0, x0 + h_x))
            else:
                v, _ = entry2(g, (0.0, h_t), (0.0, h_x), (0.0, h_t), (0.0, h_x))
        _DIAG[key] = v
    return _DIAG[key]


# ---------------------------------------------------------------------------
def pointwise(geo, t, x_hat, trial_t, trial_x, n=16, depth=18, x_piece=None):
    """Reference (V 1_trial)(t, gamma(x_hat)). x_piece: piece index that carries x_hat (needed at break points)."""
    a, b = trial_t
    if t <= a:
        return 0.0
    y0, y1 = trial_x
    pj = geo.piece_of(y0, y1)
    if x_piece is None:
        x_piece = pj if (geo.starts[pj] <= x_hat <= geo.starts[pj + 1]) else geo.piece_of(x_hat, x_hat)
    sing = [y0, y1]
    if x_piece == pj and y0 < x_hat < y1:
        sing.append(x_hat)
    iy, iw = graded(y0, y1, sing, n, depth)
    r = geo.dist2(x_piece, np.float64(x_hat), pj, iy)
    r = np.maximum(r, 1e-300)
    val = exp1(r / (4.0 * (t - a)))
    if t > b:
        val = val - exp1(r / (4.0 * (t - b)))
    return FPI * float(np.sum(iw * val))


def pointwise2(geo, t, x_hat, trial_t, trial_x, x_piece=None):
    v1 = pointwise(geo, t, x_hat, trial_t, trial_x, n=12, depth=16, x_piece=x_piece)
    v2 = pointwise(geo, t, x_hat, trial_t, trial_x, n=16, depth=20, x_piece=x_piece)
    return v2, abs(v1 - v2)


# ---------------------------------------------------------------------------
def lower_bound(geo, test_t, test_x, trial_t, trial_x):
    """Rigorous lower bound (mpmath number) of the exact entry: |X||Y| * K(r_max), the doubly time-integrated kernel
    being decreasing in the squared distance r."""
    import mpmath as mp
    a, b = test_t
    c, d = trial_t
    if b <= c:
        return mp.mpf(0)
    pi = geo.piece_of(*test_x)
    pj = geo.piece_of(*trial_x)
    rmax = geo.max_dist2(pi, test_x[0], test_x[1], pj, trial_x[0], trial_x[1])
    mp.mp.dps = 40
    r = mp.mpf(rmax)

    def F(z):
        if z <= 0:
            return mp.mpf(0)
        z = mp.mpf(z)
        u = r / (4 * z)
        return z / (4 * mp.pi) * (mp.e**(-u) - (u + 1) * mp.e1(u))
    val = F(b - d) - F(b - c) + F(a - c) - F(a - d)
    return val * (test_x[1] - test_x[0]) * (trial_x[1] - trial_x[0])


def lower_bound_positive(geo, test_t, test_x, trial_t, trial_x):
    import mpmath as mp
    return lower_bound(geo, test_t, test_x, trial_t, trial_x) > mp.mpf('1e-250')
