"""Quadrature rules for integrals of the residual / of pointwise evaluations over a mesh element.

The integrand has a sqrt-kink in t at every trial element's start and end time and a log-kink in x at every trial
end point; the rule splits the element at every such break point that falls inside it and grades geometrically
towards each sub-interval end, stopping so that every space node stays > 2e-5 from every break point
(SingleLayerOperator.evaluate asserts b - a > 1e-5 on its in-element split: the documented precondition).
"""
import numpy as np

from .refint import gl


def graded_1d(a, b, breaks, n, depth, ratio, min_dist):
    """Nodes/weights on [a,b]: split at breaks in (a,b), grade towards every sub-interval end; no node closer than
    min_dist to a sub-interval end."""
    pts = sorted({a, b} | {p for p in breaks if a < p < b})
    gx, gw = gl(n)
    xs, ws = [], []

    def panel(p, q):
        xs.append(p + (q - p) * gx)
        ws.append((q - p) * gw)

    for p, q in zip(pts, pts[1:]):
        m = 0.5 * (p + q)
        for lo_end, hi_end, towards_lo in ((p, m, True), (m, q, False)):
            L = hi_end - lo_end
            hi = 1.0
            for _ in range(depth):
                lo = hi * ratio
                # the innermost panel [0, lo*L] must keep its first node > min_dist from the end
                if lo * L * gx[0] <= min_dist:
                    break
                if towards_lo:
                    panel(lo_end + lo * L, lo_end + hi * L)
                else:
                    panel(hi_end - hi * L, hi_end - lo * L)
                hi = lo
            if towards_lo:
                panel(lo_end, lo_end + hi * L)
            else:
                panel(hi_end - hi * L, hi_end)
    return np.concatenate(xs), np.concatenate(ws)


def element_rule(time_iv, space_iv, time_breaks, space_breaks, n=6, depth_t=6, depth_x=3, ratio=0.2):
    """Tensor rule on the element: returns (t, x, w) flat arrays."""
    tt, tw = graded_1d(time_iv[0], time_iv[1], time_breaks, n, depth_t, ratio, 0.0)
    xx, xw = graded_1d(space_iv[0], space_iv[1], space_breaks, n, depth_x, ratio, 2.5e-5)
    T = np.repeat(tt, len(xx))
    X = np.tile(xx, len(tt))
    W = np.repeat(tw, len(xx)) * np.tile(xw, len(tt))
    return T, X, W
