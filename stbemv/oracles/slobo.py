"""Closed forms of the Slobodeckij double integrals for polynomials (exact rational arithmetic).

|f|^2_{H^s(a,b)} = int int |f(x)-f(y)|^2 / |x-y|^(1+2s) dx dy   (s = 1/2, 1/4)
"""
from fractions import Fraction
from math import comb


def shift_scale(coefs, a, h):
    """Coefficients (Fractions) of q(xi) = p(a + h*xi) for p(x) = sum coefs[k] x^k."""
    n = len(coefs)
    out = [Fraction(0)] * n
    for k, c in enumerate(coefs):
        for j in range(k + 1):
            out[j] += c * comb(k, j) * a**(k - j) * h**j
    return out


def divided_difference(coefs):
    """q[i][j] with (p(x)-p(y))/(x-y) = sum q[i][j] x^i y^j."""
    n = len(coefs)
    q = {}
    for k in range(1, n):
        for i in range(k):
            q[(i, k - 1 - i)] = q.get((i, k - 1 - i), Fraction(0)) + coefs[k]
    return q


def beta_3_2(j):
    """B(j+1, 3/2) = j! / prod_{m=0..j} (3/2 + m)  (rational)."""
    num = Fraction(1)
    for m in range(1, j + 1):
        num *= m
    den = Fraction(1)
    for m in range(j + 1):
        den *= Fraction(3, 2) + m
    return num / den


def h12_exact(coefs, a, b):
    """int_a^b int_a^b ((p(x)-p(y))/(x-y))^2 dx dy as a Fraction (coefs, a, b Fractions)."""
    h = b - a
    pt = shift_scale(coefs, a, h)              # p on the unit interval
    q = divided_difference(pt)                 # (pt(xi)-pt(eta))/(xi-eta)
    total = Fraction(0)
    items = list(q.items())
    for (i1, j1), c1 in items:
        for (i2, j2), c2 in items:
            total += c1 * c2 * Fraction(1, (i1 + i2 + 1) * (j1 + j2 + 1))
    # x = a + h xi: (p(x)-p(y))^2/(x-y)^2 dx dy = (pt(xi)-pt(eta))^2/(h^2 (xi-eta)^2) h^2 dxi deta
    return total


def h14_exact_rational(coefs, a, b):
    """R (Fraction) with |p|^2_{H^{1/4}(a,b)} = sqrt(b-a) * R."""
    h = b - a
    pt = shift_scale(coefs, a, h)
    q = divided_difference(pt)
    total = Fraction(0)
    items = list(q.items())
    for (i1, j1), c1 in items:
        for (i2, j2), c2 in items:
            i, j = i1 + i2, j1 + j2
            # int_0^1 int_0^1 xi^i eta^j |xi-eta|^(1/2) = [B(j+1,3/2) + B(i+1,3/2)] / (i+j+5/2)
            total += c1 * c2 * (beta_3_2(j) + beta_3_2(i)) / (Fraction(5, 2) + i + j)
    # (p(x)-p(y))^2 |x-y|^(-3/2) dx dy = qt^2 (xi-eta)^2 (h|xi-eta|)^(-3/2) h^2 = sqrt(h) qt^2 |xi-eta|^(1/2)
    return total
