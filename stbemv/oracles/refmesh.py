"""Reference model of the space-time mesh: a set of rectangles with levels.

Deliberately a different representation from src/mesh.py: no tree, no half-edges,
no vertices. State is {(t0, t1, x0, x1): (level_t, level_x)} on the float
coordinates the implementation must hold (floats compare exactly; bisection puts
the midpoint at the IEEE midpoint (a+b)/2, which is what any implementation that
stores doubles must compute). Neighbours are geometric; the conformity closure is
the chain rule of DESIGN.md section 3.1.
"""
from fractions import Fraction

SIDES = ('B', 'R', 'T', 'L')  # order of Element.edges: t=t0, x=x1, t=t1, x=x0
OPP = {'B': 'T', 'T': 'B', 'L': 'R', 'R': 'L'}


class RefMesh:
    def __init__(self, space_grid, time_grid, glued):
        self.glued = bool(glued)
        self.x_min, self.x_max = space_grid[0], space_grid[-1]
        self.t_min, self.t_max = time_grid[0], time_grid[-1]
        self.leaves = {}
        self._ix = {'x0': {}, 'x1': {}, 't0': {}, 't1': {}}
        self.roots = []
        for j in range(len(time_grid) - 1):
            for i in range(len(space_grid) - 1):
                r = (time_grid[j], time_grid[j + 1], space_grid[i], space_grid[i + 1])
                self._add(r, (0, 0))
                self.roots.append(r)

    # -- construction -------------------------------------------------------
    @classmethod
    def from_leaves(cls, leaves, glued, domain):
        """leaves: iterable of ((t0,t1,x0,x1),(lt,lx)); domain=(t_min,t_max,x_min,x_max)."""
        self = cls.__new__(cls)
        self.glued = bool(glued)
        self.t_min, self.t_max, self.x_min, self.x_max = domain
        self.leaves = {}
        self._ix = {'x0': {}, 'x1': {}, 't0': {}, 't1': {}}
        self.roots = []
        for r, lv in leaves:
            self._add(tuple(r), tuple(lv))
        return self

    def copy(self):
        return RefMesh.from_leaves(self.leaves.items(), self.glued,
                                   (self.t_min, self.t_max, self.x_min, self.x_max))

    def _add(self, r, lv):
        assert r not in self.leaves
        self.leaves[r] = lv
        self._ix['t0'].setdefault(r[0], set()).add(r)
        self._ix['t1'].setdefault(r[1], set()).add(r)
        self._ix['x0'].setdefault(r[2], set()).add(r)
        self._ix['x1'].setdefault(r[3], set()).add(r)

    def _remove(self, r):
        del self.leaves[r]
        self._ix['t0'][r[0]].discard(r)
        self._ix['t1'][r[1]].discard(r)
        self._ix['x0'][r[2]].discard(r)
        self._ix['x1'][r[3]].discard(r)

    # -- geometry -----------------------------------------------------------
    def neighbours(self, r, side):
        """Leaves sharing a piece of positive length of the given side of r."""
        t0, t1, x0, x1 = r
        out = []
        if side == 'R':
            x = x1
            if self.glued and x1 == self.x_max:
                x = self.x_min
            elif x1 == self.x_max:
                return out
            for s in self._ix['x0'].get(x, ()):
                if s[0] < t1 and t0 < s[1]:
                    out.append(s)
        elif side == 'L':
            x = x0
            if self.glued and x0 == self.x_min:
                x = self.x_max
            elif x0 == self.x_min:
                return out
            for s in self._ix['x1'].get(x, ()):
                if s[0] < t1 and t0 < s[1]:
                    out.append(s)
        elif side == 'T':
            for s in self._ix['t0'].get(t1, ()):
                if s[2] < x1 and x0 < s[3]:
                    out.append(s)
        elif side == 'B':
            for s in self._ix['t1'].get(t0, ()):
                if s[2] < x1 and x0 < s[3]:
                    out.append(s)
        else:
            raise ValueError(side)
        return out

    def on_boundary(self, r, side):
        if side == 'B':
            return r[0] == self.t_min
        if side == 'T':
            return r[1] == self.t_max
        if self.glued:
            return False
        if side == 'L':
            return r[2] == self.x_min
        return r[3] == self.x_max

    def all_neighbours(self, r):
        out = []
        for side in SIDES:
            out.extend(self.neighbours(r, side))
        return out

    # -- operations ---------------------------------------------------------
    def closure(self, r, ax):
        """Least set of ax-bisections containing r that keeps neighbours within one level in ax."""
        todo, S = [r], []
        seen = set()
        while todo:
            a = todo.pop()
            if a in seen:
                continue
            seen.add(a)
            S.append(a)
            la = self.leaves[a][ax]
            for n in self.all_neighbours(a):
                if n not in seen and self.leaves[n][ax] < la:
                    todo.append(n)
        return S

    @staticmethod
    def halves(r, ax):
        t0, t1, x0, x1 = r
        if ax == 0:
            m = (t0 + t1) / 2
            return (t0, m, x0, x1), (m, t1, x0, x1)
        m = (x0 + x1) / 2
        return (t0, t1, x0, m), (t0, t1, m, x1)

    def bisect(self, r, ax):
        """Bisect leaf r in axis ax with minimal closure; returns the two children of r."""
        S = self.closure(r, ax)
        kids = None
        for a in S:
            lv = self.leaves[a]
            self._remove(a)
            c1, c2 = self.halves(a, ax)
            nl = (lv[0] + 1, lv[1]) if ax == 0 else (lv[0], lv[1] + 1)
            self._add(c1, nl)
            self._add(c2, nl)
            if a == r:
                kids = (c1, c2)
        return kids

    def bisect_many(self, rects, ax):
        """Smallest 1-irregular refinement containing the ax-bisection of all rects (order free)."""
        for r in rects:
            if r in self.leaves:  # may already have been bisected by an earlier closure
                self.bisect(r, ax)

    def refine_both(self, r):
        out = []
        for c in self.bisect(r, 0):
            out.extend(self.bisect(c, 1))
        return out

    def quarter_all(self):
        old = list(self.leaves.items())
        for r, lv in old:
            self._remove(r)
        for r, lv in old:
            for c in self.halves(r, 0):
                for d in self.halves(c, 1):
                    self._add(d, (lv[0] + 1, lv[1] + 1))

    def halve_all_space(self):
        old = list(self.leaves.items())
        for r, lv in old:
            self._remove(r)
        for r, lv in old:
            for d in self.halves(r, 1):
                self._add(d, (lv[0], lv[1] + 1))

    # -- checks on the model itself (used to validate the oracle) -----------
    def irregularity(self):
        """max level difference between edge neighbours per axis (1-irregular <=> <= 1)."""
        worst = [0, 0]
        for r, lv in self.leaves.items():
            for n in self.all_neighbours(r):
                ln = self.leaves[n]
                for ax in (0, 1):
                    worst[ax] = max(worst[ax], abs(lv[ax] - ln[ax]))
        return worst

    def area(self):
        return sum((Fraction(r[1]) - Fraction(r[0])) * (Fraction(r[3]) - Fraction(r[2])) for r in self.leaves)


# ---------------------------------------------------------------------------
# Observation of the real mesh
# ---------------------------------------------------------------------------
def rect_of(e):
    return (e.time_interval[0], e.time_interval[1], e.space_interval[0], e.space_interval[1])


def leaf_dict(mesh):
    return {rect_of(e): tuple(e.levels) for e in mesh.leaf_elements}


def compare_leaves(mesh, ref):
    """[] if the live leaves (geometry and levels) equal the model's; else a description."""
    live = leaf_dict(mesh)
    if len(live) != len(mesh.leaf_elements):
        return ['two leaves with identical rectangle']
    if live == ref.leaves:
        return []
    only_live = sorted(set(live) - set(ref.leaves))[:4]
    only_ref = sorted(set(ref.leaves) - set(live))[:4]
    lev = [(r, live[r], ref.leaves[r]) for r in live if r in ref.leaves and live[r] != ref.leaves[r]][:4]
    return ['leaves differ: only in implementation %r, only in model %r, level mismatch %r' %
            (only_live, only_ref, lev)]


def check_structure(mesh, time_grid, space_grid):
    """Model-free invariants of the live data structure (DESIGN 3.1). Returns list of problems."""
    bad = []
    roots = list(mesh.roots)
    nt, nx = len(time_grid) - 1, len(space_grid) - 1
    if len(roots) != nt * nx:
        bad.append('number of roots %d != %d' % (len(roots), nt * nx))
    # roots tile the initial tensor grid
    want = {(time_grid[j], time_grid[j + 1], space_grid[i], space_grid[i + 1])
            for j in range(nt) for i in range(nx)}
    if {rect_of(r) for r in roots} != want:
        bad.append('roots do not equal the initial tensor grid')
    # walk the refinement tree: every split partitions its parent exactly
    childless, stack, n_nodes = [], list(roots), 0
    idxs = set()
    while stack:
        e = stack.pop()
        n_nodes += 1
        gi = getattr(e, 'glob_idx', None)
        if gi is None or gi in idxs or not (0 <= gi < mesh.N_elements):
            bad.append('glob_idx %r duplicated/out of range at %r' % (gi, e))
        idxs.add(gi)
        if e.parent is None and tuple(e.levels) != (0, 0):
            bad.append('root with levels %r' % (e.levels, ))
        ch = e.children
        if not ch:
            childless.append(e)
            continue
        if len(ch) != 2:
            bad.append('element with %d children' % len(ch))
            continue
        r = rect_of(e)
        got = (rect_of(ch[0]), rect_of(ch[1]))
        lv = tuple(e.levels)
        ok = False
        for ax in (0, 1):
            if got == RefMesh.halves(r, ax):
                nl = (lv[0] + 1, lv[1]) if ax == 0 else (lv[0], lv[1] + 1)
                ok = tuple(ch[0].levels) == nl and tuple(ch[1].levels) == nl
        if not ok:
            bad.append('children %r (levels %r,%r) do not bisect %r (levels %r)' %
                       (got, ch[0].levels, ch[1].levels, r, lv))
        for c in ch:
            if c.parent is not e:
                bad.append('child.parent is not the element')
            stack.append(c)
    if n_nodes != mesh.N_elements:
        bad.append('N_elements=%d but tree has %d nodes' % (mesh.N_elements, n_nodes))
    live = list(mesh.leaf_elements)
    if len(set(map(id, live))) != len(live):
        bad.append('leaf collection holds an element twice')
    if set(map(id, live)) != set(map(id, childless)):
        bad.append('leaf collection (%d) is not the set of childless elements (%d)' % (len(live), len(childless)))
    # exact area
    tot = (Fraction(time_grid[-1]) - Fraction(time_grid[0])) * (Fraction(space_grid[-1]) - Fraction(space_grid[0]))
    area = sum((Fraction(e.time_interval[1]) - Fraction(e.time_interval[0])) *
               (Fraction(e.space_interval[1]) - Fraction(e.space_interval[0])) for e in live)
    if area != tot:
        bad.append('leaf areas sum to %s, cylinder has %s' % (area, tot))
    for e in live:
        t0, t1 = e.time_interval
        x0, x1 = e.space_interval
        if not (time_grid[0] <= t0 < t1 <= time_grid[-1] and space_grid[0] <= x0 < x1 <= space_grid[-1]):
            bad.append('leaf %r outside the cylinder' % (e, ))
        if e.h_t != t1 - t0 or e.h_x != x1 - x0:
            bad.append('h_t/h_x inconsistent at %r' % (e, ))
        vs = e.vertices
        if [(v.t, v.x) for v in vs] != [(t0, x0), (t0, x1), (t1, x1), (t1, x0)]:
            bad.append('vertex order/coordinates inconsistent at %r' % (e, ))
    # vertices
    coords = {}
    for pos, v in enumerate(mesh.vertices):
        if v.idx != pos:
            bad.append('vertex idx %r at position %d' % (v.idx, pos))
        key = (v.t, v.x)
        if key in coords:
            bad.append('two vertices share coordinates %r' % (key, ))
        coords[key] = v
    for e in live:
        for v in e.vertices:
            if not (0 <= v.idx < len(mesh.vertices)) or mesh.vertices[v.idx] is not v:
                bad.append('leaf vertex not registered in mesh.vertices at %r' % (e, ))
                break
    return bad[:12]


def check_gmsh(mesh):
    bad = []
    txt = mesh.gmsh()
    lines = txt.split('\n')
    try:
        i = lines.index('$Nodes')
        n_nodes = int(lines[i + 1])
        nodes = {}
        for ln in lines[i + 2:i + 2 + n_nodes]:
            p = ln.split()
            nodes[int(p[0])] = (float(p[1]), float(p[2]))
        j = lines.index('$Elements')
        n_el = int(lines[j + 1])
        els = [ln.split() for ln in lines[j + 2:j + 2 + n_el]]
    except Exception as ex:  # malformed
        return ['gmsh() output not parseable: %r' % (ex, )]
    if n_nodes != len(mesh.vertices) or len(nodes) != n_nodes:
        bad.append('gmsh node count %d vs %d vertices' % (n_nodes, len(mesh.vertices)))
    if n_el != len(mesh.leaf_elements):
        bad.append('gmsh lists %d elements, mesh has %d leaves' % (n_el, len(mesh.leaf_elements)))
    rects = set()
    for p in els:
        ids = [int(q) for q in p[5:9]]
        if len(set(ids)) != 4 or any(q not in nodes for q in ids):
            bad.append('gmsh element with repeated/missing vertex ids %r' % (ids, ))
            continue
        ts = [nodes[q][0] for q in ids]
        xs = [nodes[q][1] for q in ids]
        rects.add((min(ts), max(ts), min(xs), max(xs)))
    want = {tuple(float(c) for c in rect_of(e)) for e in mesh.leaf_elements}
    if rects != want:
        bad.append('gmsh elements are not exactly the leaves')
    return bad[:6]


def check_neighbours(mesh, ref, elems=None):
    """Edge.neighbour_elements() against the geometric neighbour rule. Returns (problems, n_edges, stats)."""
    bad = []
    n_edges = 0
    stats = {'boundary': 0, 'one': 0, 'two': 0, 'seam': 0, 'finer': 0, 'coarser': 0}
    leafset = mesh.leaf_elements
    for e in (elems if elems is not None else list(leafset)):
        r = rect_of(e)
        for k, side in enumerate(SIDES):
            edge = e.edges[k]
            n_edges += 1
            try:
                got = edge.neighbour_elements()
            except Exception as ex:
                bad.append('neighbour_elements() raised %s at %r side %s' % (type(ex).__name__, r, side))
                continue
            want = ref.neighbours(r, side)
            got_r = []
            for g in got:
                if g is None or g not in leafset:
                    bad.append('stale/non-leaf neighbour %r reported at %r side %s' % (g, r, side))
                else:
                    got_r.append(rect_of(g))
            if len(got_r) != len(set(got_r)):
                bad.append('duplicate neighbour at %r side %s' % (r, side))
            if set(got_r) != set(want):
                bad.append('neighbours of %r side %s: reported %r, geometric %r' %
                           (r, side, sorted(got_r), sorted(want)))
            if len(got) > 2:
                bad.append('more than two neighbours at %r side %s' % (r, side))
            onb = ref.on_boundary(r, side)
            if bool(edge.on_boundary and not edge.glued) != onb:
                bad.append('boundary flag %r/%r but geometric boundary=%r at %r side %s' %
                           (edge.on_boundary, edge.glued, onb, r, side))
            if onb and got:
                bad.append('boundary edge with neighbours at %r side %s' % (r, side))
            if not onb and not got:
                bad.append('interior/seam edge without neighbour at %r side %s' % (r, side))
            # symmetry, judged on the implementation's own answers
            for g in got:
                if g is None or g not in leafset:
                    continue
                try:
                    back = g.edges[SIDES.index(OPP[side])].neighbour_elements()
                except Exception:
                    continue  # reported when that leaf's own edge is visited
                if e not in back:
                    bad.append('asymmetric: %r lists %r across %s but not conversely' % (r, rect_of(g), side))
            if onb:
                stats['boundary'] += 1
            elif len(want) == 2:
                stats['two'] += 1
            else:
                stats['one'] += 1
            if side in 'LR' and not onb and ((side == 'R' and r[3] == ref.x_max) or (side == 'L' and r[2] == ref.x_min)):
                stats['seam'] += 1
            ax = 0 if side in 'LR' else 1
            for w in want:
                if ref.leaves[w][ax] > ref.leaves[r][ax]:
                    stats['finer'] += 1
                elif ref.leaves[w][ax] < ref.leaves[r][ax]:
                    stats['coarser'] += 1
            if len(bad) > 10:
                return bad, n_edges, stats
    return bad, n_edges, stats


def tree_signature(mesh):
    """Per root, the nested split pattern: distinguishes states by refinement tree."""
    def sig(e):
        if not e.children:
            return 'o'
        ax = 't' if e.children[0].time_interval != e.time_interval else 'x'
        return '(' + ax + sig(e.children[0]) + sig(e.children[1]) + ')'
    return '|'.join(sig(r) for r in mesh.roots)


def wiring_signature(mesh):
    """For every leaf and side: the sorted rectangles its edge reports as neighbours."""
    out = []
    for e in sorted(mesh.leaf_elements, key=rect_of):
        row = [rect_of(e)]
        for k in range(4):
            try:
                row.append(tuple(sorted(rect_of(g) for g in e.edges[k].neighbour_elements())))
            except Exception as ex:  # noqa
                row.append(('ERR', type(ex).__name__))
        out.append(tuple(row))
    return tuple(out)
