"""Runs one property check: plan -> shards (OS processes) -> merge -> verdict -> evidence.

Verdicts are three-valued:
  exit 0  held on everything observed (KNOWN-FINDING lines may be printed)
  exit 1  VIOLATION property=<id> replay=<path>
  exit 2  INCONCLUSIVE property=<id> reason=...   (never folded into the other two)
"""
import argparse
import importlib
import json
import os
import shutil
import subprocess
import sys
import tempfile
import time
from collections import Counter

from . import env
from .acc import digest, jsonable

VERIF = env.VERIF
PY = '/venv/bin/python'


# --------------------------------------------------------------------------
def load_known_findings(prop_id):
    findings = {}
    fn = os.path.join(VERIF, 'known-findings.txt')
    if not os.path.exists(fn):
        return findings
    for line in open(fn):
        line = line.strip()
        if not line.startswith('finding:'):
            continue  # 'fixed:' entries and comments suppress nothing
        parts = line[len('finding:'):].split()
        kv = dict(p.split('=', 1) for p in parts[:2] if '=' in p)
        if kv.get('property') == prop_id and 'key' in kv:
            findings[kv['key']] = ' '.join(parts[2:])
    return findings


# --------------------------------------------------------------------------
def run_shards(prop_id, specs, jobs, timeout, workdir):
    """Each spec runs in its own interpreter; returns list of result dicts."""
    envv = dict(os.environ)
    envv['PYTHONPATH'] = VERIF + (os.pathsep + envv['PYTHONPATH'] if envv.get('PYTHONPATH') else '')
    envv['PYTHONDONTWRITEBYTECODE'] = '1'
    envv['PYTHONHASHSEED'] = '0'
    envv['STBEM_REPO'] = env.REPO
    envv['STBEM_SCRATCH'] = workdir
    envv[env.GUARD] = '1'
    envv.setdefault('OMP_NUM_THREADS', '1')
    envv.setdefault('OPENBLAS_NUM_THREADS', '1')
    envv.setdefault('MKL_NUM_THREADS', '1')
    pending = list(enumerate(specs))
    running = {}
    results = [None] * len(specs)
    while pending or running:
        while pending and len(running) < jobs:
            i, spec = pending.pop(0)
            sf = os.path.join(workdir, 'spec%d.json' % i)
            of = os.path.join(workdir, 'out%d.json' % i)
            ef = os.path.join(workdir, 'err%d.txt' % i)
            json.dump(spec, open(sf, 'w'))
            p = subprocess.Popen([PY, '-X', 'faulthandler', '-m', 'stbemv.shardmain', prop_id, sf, of],
                                 cwd=workdir, env=envv, stdout=subprocess.DEVNULL,
                                 stderr=open(ef, 'w'))
            running[i] = (p, time.time(), of, ef, spec)
        time.sleep(0.05)
        for i in list(running):
            p, t0, of, ef, spec = running[i]
            rc = p.poll()
            if rc is None:
                if time.time() - t0 > timeout:
                    p.kill()
                    p.wait()
                    results[i] = {'status': 'timeout', 'spec': spec, 'error': 'watchdog %ds' % timeout}
                    del running[i]
                continue
            del running[i]
            if os.path.exists(of):
                results[i] = json.load(open(of))
            else:
                tail = open(ef).read()[-3000:] if os.path.exists(ef) else ''
                results[i] = {'status': 'died', 'spec': spec, 'error': 'rc=%s\n%s' % (rc, tail)}
    return results


def merge(results):
    m = {
        'evaluations': 0, 'distinct': set(), 'classes': Counter(), 'worst': {}, 'samples': [],
        'violations': [], 'n_violations': 0, 'inconclusive': [], 'counters': Counter(),
        'extra': [], 'entered': set(), 'shards': len(results), 'shard_wall_s': 0.0,
    }
    for r in results:
        if r.get('status') != 'ok':
            m['inconclusive'].append('shard %s: %s: %s' % (r.get('spec', {}).get('name', '?'), r.get('status'),
                                                        (r.get('error') or '').strip().splitlines()[-1:] or ''))
            if r.get('status') in ('timeout', 'died'):
                continue
        m['evaluations'] += r.get('evaluations', 0)
        m['distinct'].update(r.get('distinct', []))
        m['classes'].update(r.get('classes', {}))
        for k, v in r.get('worst', {}).items():
            if k not in m['worst'] or v > m['worst'][k]:
                m['worst'][k] = v
        m['samples'].extend(r.get('samples', []))
        for v in r.get('violations', []):
            v = dict(v)
            v['spec'] = r.get('spec')
            m['violations'].append(v)
        m['n_violations'] += r.get('n_violations', 0)
        for reason in r.get('inconclusive', []):
            if reason not in m['inconclusive']:
                m['inconclusive'].append(reason)
        m['counters'].update(r.get('counters', {}))
        if r.get('extra'):
            m['extra'].append(r['extra'])
        m['entered'].update(r.get('entered', []))
        m['shard_wall_s'] += r.get('wall_s', 0.0)
        if r.get('status') == 'crash':
            m['crash_trace'] = r.get('error')
    return m


# --------------------------------------------------------------------------
def main(argv=None):
    ap = argparse.ArgumentParser(prog='check')
    ap.add_argument('prop')
    ap.add_argument('--tier', default=os.environ.get('VERIF_TIER', 'quick'), choices=['quick', 'thorough'])
    ap.add_argument('--seed', type=int, default=int(os.environ.get('VERIF_SEED', '0') or 0))
    ap.add_argument('--jobs', type=int, default=int(os.environ.get('VERIF_JOBS', '0') or 0))
    ap.add_argument('--replay', default=None)
    ap.add_argument('--only', default=None, help='run only shards whose name contains this')
    ap.add_argument('--no-evidence', action='store_true')
    args = ap.parse_args(argv)
    prop_id = args.prop.upper()
    mod = importlib.import_module('stbemv.props.' + prop_id.lower())
    jobs = args.jobs or min(16, os.cpu_count() or 4)
    t0 = time.time()

    workdir = tempfile.mkdtemp(prefix='stbemv-%s-' % prop_id, dir=env.scratch_root())
    try:
        if args.replay:
            w = json.load(open(args.replay))
            spec = dict(w['spec'])
            spec['replay'] = w.get('witness')
            specs = [spec]
        else:
            specs = mod.plan(args.tier, args.seed)
            if args.only:
                specs = [s for s in specs if args.only in s.get('name', '')]
        for s in specs:
            s.setdefault('tier', args.tier)
            s.setdefault('seed', args.seed)
        timeout = getattr(mod, 'TIMEOUT', {}).get(args.tier, 900 if args.tier == 'quick' else 5400)
        results = run_shards(prop_id, specs, jobs, timeout, workdir)
        m = merge(results)
        extra_cov = {}
        if hasattr(mod, 'finalize'):
            extra_cov = mod.finalize(m, args.tier) or {}
    finally:
        shutil.rmtree(workdir, ignore_errors=True)

    # required classes
    req = getattr(mod, 'REQUIRED', {})
    req = req.get(args.tier, []) if isinstance(req, dict) else list(req)
    if not args.replay and not args.only:
        for cls in req:
            if m['classes'].get(cls, 0) <= 0:
                m['inconclusive'].append('required class never observed: %s' % cls)
        if m['evaluations'] == 0:
            m['inconclusive'].append('no event was observed')

    # violations vs. known findings
    known = load_known_findings(prop_id)
    new_viol, known_hit = [], {}
    for v in m['violations']:
        if v['key'] in known:
            known_hit.setdefault(v['key'], v)
        else:
            new_viol.append(v)
    for k, v in known_hit.items():
        print('KNOWN-FINDING: property=%s key=%s %s' % (prop_id, k, known[k]))

    replay_paths = []
    seen_keys = set()
    os.makedirs(os.path.join(VERIF, 'replays'), exist_ok=True)
    for v in new_viol:
        if v['key'] in seen_keys or len(seen_keys) >= 8:
            continue
        seen_keys.add(v['key'])
        path = os.path.join(VERIF, 'replays', '%s-%s.json' % (prop_id, digest([v['key'], v['witness']])))
        json.dump({'property': prop_id, 'key': v['key'], 'msg': v['msg'], 'witness': v['witness'],
                   'spec': v.get('spec'), 'seed': args.seed, 'tier': args.tier}, open(path, 'w'), indent=1)
        replay_paths.append(path)
        print('VIOLATION property=%s replay=%s' % (prop_id, path))
        print('  mechanism: %s\n  %s' % (v['key'], v['msg']))

    wall = time.time() - t0
    distinct_n = len(m['distinct']) + int(extra_cov.pop('distinct_extra', 0))
    coverage = {
        'evaluations': int(m['evaluations']),
        'distinct_nontrivial': int(distinct_n),
        'rule': getattr(mod, 'RULE', ''),
        'samples': m['samples'][:12] if m['samples'] else [],
        'classes_observed': dict(sorted(m['classes'].items())),
        'worst_margin_per_class': {k: m['worst'][k] for k in sorted(m['worst'])},
        'counters': dict(sorted(m['counters'].items())),
        'shards': m['shards'],
        'cpu_s_in_shards': round(m['shard_wall_s'], 1),
        'repo_functions_entered': sorted(m['entered']),
        'required_classes': req,
        'inconclusive_reasons': m['inconclusive'],
        'known_findings_hit': sorted(known_hit),
        'violation_keys': sorted({v['key'] for v in new_viol}),
        'repo': env.REPO,
    }
    coverage.update(jsonable(extra_cov))
    verdict = 'violated' if new_viol else ('inconclusive' if m['inconclusive'] else 'held')
    coverage['verdict'] = verdict
    evidence = {
        'property_id': prop_id, 'tier': args.tier, 'seed': args.seed,
        'level': getattr(mod, 'LEVEL', 'exploration'),
        'coverage': coverage,
        'assumptions': list(getattr(mod, 'ASSUMPTIONS', [])),
        'wall_s': round(wall, 2),
        'violations': int(m['n_violations'] if new_viol else 0),
    }
    if not args.no_evidence and not args.replay and not args.only:
        os.makedirs(os.path.join(VERIF, 'evidence'), exist_ok=True)
        fn = os.path.join(VERIF, 'evidence', prop_id + '.json')
        json.dump(evidence, open(fn + '.tmp', 'w'), indent=1, sort_keys=False)
        os.replace(fn + '.tmp', fn)

    print('%s %s tier=%s seed=%d: %s  evaluations=%d distinct=%d shards=%d wall=%.1fs' %
          (prop_id, getattr(mod, 'TITLE', ''), args.tier, args.seed, verdict.upper(), m['evaluations'],
           distinct_n, m['shards'], wall))
    if m.get('crash_trace'):
        print(m['crash_trace'])
    if new_viol:
        return 1
    if m['inconclusive']:
        for r in m['inconclusive'][:10]:
            print('INCONCLUSIVE property=%s reason=%s' % (prop_id, r))
        return 2
    return 0
