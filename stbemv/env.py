"""Imports the repository from its current working tree and keeps it quiet.

The repository is imported from $STBEM_REPO (default /repo) afresh in every shard
process; no byte code is written and nothing under the repository is touched.
"""
import os
import sys

REPO = os.environ.get('STBEM_REPO', '/repo')
VERIF = os.path.dirname(os.path.dirname(os.path.abspath(__file__)))
GUARD = 'STBEM_VERIF'


def setup():
    sys.dont_write_bytecode = True
    os.environ.setdefault(GUARD, '1')
    if sys.path[0] != REPO:
        if REPO in sys.path:
            sys.path.remove(REPO)
        sys.path.insert(0, REPO)
    deps = os.path.join(VERIF, '.deps')
    if os.path.isdir(deps) and deps not in sys.path:
        sys.path.append(deps)


def scratch_root():
    root = os.environ.get('STBEM_SCRATCH') or os.environ.get('TMPDIR') or '/var/tmp'
    os.makedirs(root, exist_ok=True)
    return root


def repo_modules():
    """All loaded modules that belong to the repository."""
    out = []
    for name, mod in list(sys.modules.items()):
        f = getattr(mod, '__file__', None)
        if f and os.path.abspath(f).startswith(os.path.abspath(REPO) + os.sep):
            out.append(mod)
    return out
