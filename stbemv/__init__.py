"""Runtime-monitoring harness for rvanvenetie/stbem (see /verif/DESIGN.md)."""
