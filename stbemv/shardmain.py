"""Entry point of one shard process:  python -m stbemv.shardmain <prop> <spec.json> <out.json>

A shard imports the repository afresh from its working tree, runs
props.<prop>.run_shard(spec, acc) with stdout silenced, and writes what the
monitors observed to <out.json>. Exceptions escaping the harness itself are
reported as 'crash' (inconclusive), never as a verdict on the repository.
"""
import faulthandler
import json
import os
import sys
import time
import traceback


def _track_repo_functions(repo):
    """sys.monitoring PY_START with DISABLE after the first hit per code object:
    which repository functions this shard really entered."""
    entered = set()
    mon = getattr(sys, 'monitoring', None)
    if mon is None:
        return entered
    tool = mon.COVERAGE_ID
    try:
        mon.use_tool_id(tool, 'stbemv')
    except ValueError:
        return entered
    prefix = os.path.abspath(repo) + os.sep

    def on_start(code, offset):
        fn = code.co_filename
        if fn.startswith(prefix):
            entered.add(fn[len(prefix):] + ':' + code.co_qualname)
        return mon.DISABLE

    mon.register_callback(tool, mon.events.PY_START, on_start)
    mon.set_events(tool, mon.events.PY_START)
    return entered


def main():
    prop, spec_fn, out_fn = sys.argv[1:4]
    from . import env
    env.setup()
    faulthandler.enable(file=sys.stderr)
    spec = json.load(open(spec_fn))
    entered = _track_repo_functions(env.REPO)
    from .acc import Acc
    acc = Acc()
    t0 = time.time()
    real_stdout = sys.stdout
    devnull = open(os.devnull, 'w')
    sys.stdout = devnull
    status = 'ok'
    err = None
    try:
        import importlib
        mod = importlib.import_module('stbemv.props.' + prop.lower())
        mod.run_shard(spec, acc)
    except BaseException:  # harness failure
        status = 'crash'
        err = traceback.format_exc()
    finally:
        sys.stdout = real_stdout
    out = acc.to_json()
    out['status'] = status
    out['error'] = err
    out['wall_s'] = time.time() - t0
    out['spec'] = spec
    out['entered'] = sorted(entered)
    tmp = out_fn + '.tmp'
    with open(tmp, 'w') as f:
        json.dump(out, f)
    os.replace(tmp, out_fn)


if __name__ == '__main__':
    main()
