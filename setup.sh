#!/bin/bash
# Offline setup after a fresh restore: install the contract libraries beside the repository's interpreter
# (git-ignored .deps) from the local wheelhouse. Checks also work without it (they fall back to plain wrappers).
cd "$(dirname "${BASH_SOURCE[0]}")"
if [ ! -d .deps/icontract ]; then
  PIP_NO_INDEX=1 /venv/bin/pip install --quiet --no-index --find-links /opt/veriftools/wheels --target .deps deal icontract >/dev/null 2>&1 || echo "setup: contract libraries not installed (optional)"
fi
mkdir -p evidence replays
/venv/bin/python -c "import numpy, scipy, mpmath; print('setup ok: numpy', numpy.__version__)"
