#!/bin/bash
# tools/seedpass.sh [ids...]: applies every seeded change to /repo itself (git apply), runs the quick checks named in its meta.json,
# and undoes it straight afterwards (git checkout -- .). Prints one line per (seed, check). /repo must be clean and idle.
cd /verif
[ -z "$(git -C /repo status --porcelain)" ] || { echo "/repo is not clean"; exit 2; }
for d in /verif/seeded/S*/; do
  id=$(basename $d)
  if [ $# -gt 0 ] && ! echo "$@" | grep -qw "$id"; then continue; fi
  props=$(/venv/bin/python -c "import json;print(' '.join(json.load(open('$d/meta.json'))['caught_by'].keys()))")
  git -C /repo apply $d/patch.diff || { echo "$id: patch does not apply"; continue; }
  for p in $props; do
    out=$(./check $p --no-evidence 2>&1 | grep -v '^KNOWN'); rc=$?
    n=$(echo "$out" | grep -c '^VIOLATION')
    mech=$(echo "$out" | grep -m1 'mechanism:' | sed 's/ *mechanism: //')
    verdict=$(echo "$out" | tail -1 | grep -oE 'HELD|VIOLATED|INCONCLUSIVE' | head -1)
    echo "$id $p $verdict violations=$n first=$mech"
  done
  git -C /repo checkout -- .
done
[ -z "$(git -C /repo status --porcelain)" ] && echo "/repo clean again"
