#!/venv/bin/python
"""Regenerates /verif/MANIFEST.json from the property modules (stbemv/props/cNN.py)."""
import importlib
import json
import os
import sys

VERIF = os.path.dirname(os.path.dirname(os.path.abspath(__file__)))
sys.path.insert(0, VERIF)

ALL = ['C%02d' % i for i in range(1, 21)]
TECHNIQUE = {
    'C01': 'runtime monitor on bilform (event log) + offline checker: class-stratified sample against an independent reference integral',
    'C02': 'lock-step execution against a reference model (invariant at a hook after every operation); bounded-exhaustive + random operation histories',
    'C03': 'monitors on the real driver run through runpy (residual, solve) + oracle integrating the recorded residual closure per element',
    'C04': 'online oracle on every recorded entry / evaluation (causality, sign) on all assembly paths; rigorous mpmath lower bound for non-positive values',
    'C05': 'complete enumeration of the rule tables: real functions called for every key, exact moments in 60-digit arithmetic on doubles and on source literals',
    'C06': 'monitor on refine_axis around every marking call (marked set = depth-0 requests) + exact-rational threshold oracle + reference-model post-state',
    'C07': 'monitor on evaluate during the real estimators + hostile point generator, oracle = graded 1-D reference at two resolutions',
    'C08': 'real linform on enumerated boundary elements against own exact potentials and an independent triple-integral reference; metamorphic relations',
    'C09': 'per-patch values returned by the real estimator routines against closed forms / graded references; relations across list orders, worker counts, a curve symmetry',
    'C10': 'invariant at a hook: neighbour_elements() of every edge vs the geometric rule on the actual leaves, on bounded-exhaustive + random histories',
    'C11': 'metamorphic relation over recorded bilform values (sum over split pieces == whole)',
    'C12': 'metamorphic relations over bilform values (exchange, exact time shift: bitwise; curve motions by transplanted bisection paths)',
    'C13': 'eigenvalue / Cholesky oracle on matrices assembled by the real bilform_matrix and on the estimator child blocks',
    'C14': 'real seminorm routines against exact rational closed forms for every order and degree; invariance relations; graded corner reference',
    'C15': 'enumeration of base rules x constructors x monomials through the real integrate(); reflection and symmetry relations',
    'C16': 'lock-step against a reference quadtree + enumeration of all dyadic boundary segments with a logical descent bound',
    'C17': 'fault and schedule injection: worker-side trace monitor with delays for 1..16 workers, file-length faults, failing/crashing saves, crashes during assembly; bitwise oracle',
    'C18': 'real curve evaluations against own geometry facts; piece identity and >= 3-per-slab invariants on random grids and histories',
    'C19': 'real refine_grading under a leaf-count bound and a line-step progress monitor (logical termination bounds); post-state oracle',
    'C20': 'real estimator calls against an independent recomputation on a replayed, really bisected copy of the mesh from single-pair calls',
}
PENDING_REASON = {}

BASELINE = ("cd /repo && env -u STBEM_VERIF /venv/bin/python -m pytest -ra -q -p no:cacheprovider --timeout=900 "
            "--continue-on-collection-errors")


def main():
    checks, na = [], []
    for pid in ALL:
        fn = os.path.join(VERIF, 'stbemv', 'props', pid.lower() + '.py')
        if not os.path.exists(fn):
            na.append({'property_id': pid,
                       'reason': PENDING_REASON.get(pid, 'no check registered yet in this revision of /verif '
                                                    '(designed in DESIGN.md section 5; not a limit of the technique)')})
            continue
        mod = importlib.import_module('stbemv.props.' + pid.lower())
        c = {
            'property_id': pid,
            'quick_cmd': './check %s --tier quick' % pid,
            'thorough_cmd': './check %s --tier thorough' % pid,
            'evidence_file': 'evidence/%s.json' % pid,
            'replay_cmd_template': './check %s --replay {path}' % pid,
            'engine': 'stbemv',
            'level_claimed': {
                'category': getattr(mod, 'LEVEL', 'exploration'),
                'text': getattr(mod, 'LEVEL_TEXT', mod.RULE),
                'design_ref': 'DESIGN.md section 5, ' + pid,
            },
            'level_note': getattr(mod, 'LEVEL_NOTE', '; '.join(getattr(mod, 'ASSUMPTIONS', []))),
            'technique': getattr(mod, 'TECHNIQUE', TECHNIQUE.get(pid, 'runtime monitoring')),
        }
        checks.append(c)
    man = {
        'version': 1,
        'setup_cmd': './setup.sh',
        'hooks': {
            'guard': 'STBEM_VERIF',
            'enable': 'no source hooks: every observation point is wrapped from the harness on the imported '
                      'modules (setattr on classes / module namespaces); checks export STBEM_VERIF=1 for uniformity',
            'baseline_off_cmd': BASELINE,
            'source_commits': [],
            'add_only': True,
        },
        'engines': [{
            'name': 'stbemv', 'path': 'stbemv/',
            'serves_properties': [c['property_id'] for c in checks],
            'kind_free_text': 'runtime monitors (wrappers on the real functions, event logs, online invariants at '
                              'hooks, offline checkers) + independent oracles (reference mesh model, graded reference '
                              'quadrature, exact moments) + workload generators; one OS process per shard',
        }],
        'checks': checks,
        'not_applicable': na,
        'notes': 'Technique family: runtime monitoring. Compiler sanitizers/valgrind do not apply (pure-Python '
                 'repository, see DESIGN.md section 1). Exit codes: 0 held, 1 VIOLATION, 2 INCONCLUSIVE. '
                 'Genuine defects repaired by fix: commits are listed in known-findings.txt.',
    }
    json.dump(man, open(os.path.join(VERIF, 'MANIFEST.json'), 'w'), indent=1)
    print('claimed', [c['property_id'] for c in checks], 'not applicable', [n['property_id'] for n in na])


if __name__ == '__main__':
    main()
