#!/venv/bin/python
"""Regenerates /verif/MANIFEST.json from the property modules (stbemv/props/cNN.py)."""
import importlib
import json
import os
import sys

VERIF = os.path.dirname(os.path.dirname(os.path.abspath(__file__)))
sys.path.insert(0, VERIF)

ALL = ['C%02d' % i for i in range(1, 21)]
PENDING_REASON = {}

BASELINE = ("cd /repo && env -u STBEM_VERIF /venv/bin/python -m pytest -ra -q -p no:cacheprovider --timeout=900 "
            "--continue-on-collection-errors")


def main():
    checks, na = [], []
    for pid in ALL:
        fn = os.path.join(VERIF, 'stbemv', 'props', pid.lower() + '.py')
        if not os.path.exists(fn):
            na.append({'property_id': pid,
                       'reason': PENDING_REASON.get(pid, 'no check registered yet in this revision of /verif '
                                                    '(designed in DESIGN.md section 5; not a limit of the technique)')})
            continue
        mod = importlib.import_module('stbemv.props.' + pid.lower())
        c = {
            'property_id': pid,
            'quick_cmd': './check %s --tier quick' % pid,
            'thorough_cmd': './check %s --tier thorough' % pid,
            'evidence_file': 'evidence/%s.json' % pid,
            'replay_cmd_template': './check %s --replay {path}' % pid,
            'engine': 'stbemv',
            'level_claimed': {
                'category': getattr(mod, 'LEVEL', 'exploration'),
                'text': getattr(mod, 'LEVEL_TEXT', mod.RULE),
                'design_ref': 'DESIGN.md section 5, ' + pid,
            },
            'level_note': getattr(mod, 'LEVEL_NOTE', '; '.join(getattr(mod, 'ASSUMPTIONS', []))),
            'technique': getattr(mod, 'TECHNIQUE', 'runtime monitoring: real functions executed under recorders, '
                                                   'deterministic oracle over the recorded events'),
        }
        checks.append(c)
    man = {
        'version': 1,
        'setup_cmd': './setup.sh',
        'hooks': {
            'guard': 'STBEM_VERIF',
            'enable': 'no source hooks: every observation point is wrapped from the harness on the imported '
                      'modules (setattr on classes / module namespaces); checks export STBEM_VERIF=1 for uniformity',
            'baseline_off_cmd': BASELINE,
            'source_commits': [],
            'add_only': True,
        },
        'engines': [{
            'name': 'stbemv', 'path': 'stbemv/',
            'serves_properties': [c['property_id'] for c in checks],
            'kind_free_text': 'runtime monitors (wrappers on the real functions, event logs, online invariants at '
                              'hooks, offline checkers) + independent oracles (reference mesh model, graded reference '
                              'quadrature, exact moments) + workload generators; one OS process per shard',
        }],
        'checks': checks,
        'not_applicable': na,
        'notes': 'Technique family: runtime monitoring. Compiler sanitizers/valgrind do not apply (pure-Python '
                 'repository, see DESIGN.md section 1). Exit codes: 0 held, 1 VIOLATION, 2 INCONCLUSIVE. '
                 'Genuine defects repaired by fix: commits are listed in known-findings.txt.',
    }
    json.dump(man, open(os.path.join(VERIF, 'MANIFEST.json'), 'w'), indent=1)
    print('claimed', [c['property_id'] for c in checks], 'not applicable', [n['property_id'] for n in na])


if __name__ == '__main__':
    main()
