#!/venv/bin/python
"""Regenerates mutants/RESULTS.md (from mutants/last_selftest.json) and seeded/README.md (from seeded/*/meta.json)."""
import importlib.util
import json
import os

V = os.path.dirname(os.path.dirname(os.path.abspath(__file__)))


def mutants_table():
    spec = importlib.util.spec_from_file_location('mutants', V + '/mutants/mutants.py')
    mod = importlib.util.module_from_spec(spec)
    spec.loader.exec_module(mod)
    notes = {m['id']: m for m in mod.MUTANTS}
    fn = V + '/mutants/last_selftest.json'
    fn_full = V + '/mutants/full_selftest.json'
    rows = json.load(open(fn_full if os.path.exists(fn_full) else fn))
    out = ['# Mutation self-test: last full run of `./selftest`', '',
           'Each mutant is applied to a scratch copy of `/repo`; `baseline` = the 43 stable repository tests still pass with it (a `no` means the',
           "repository's own suite already notices the change; such mutants only validate the monitor, they are not \"surviving\" changes).",
           'Checks listed are the quick tiers that must report a violation (exit 1); negative controls must stay at exit 0.', '',
           '| mutant | file | baseline passes | expected | check: result (first mechanism) | what it is |', '|---|---|---|---|---|---|']
    n_ok = n = 0
    for r in rows:
        m = notes.get(r['id'], {})
        res = []
        for p, c in r['checks'].items():
            want = 1 if r['expect'] == 'caught' else 0
            n += 1
            n_ok += c['rc'] == want
            mech = (c['mech'][0].replace('mechanism: ', '') if c['mech'] else '')
            res.append('%s: exit %d%s' % (p, c['rc'], (' (' + mech[:60] + ')') if mech else ''))
        out.append('| %s | %s | %s | %s | %s | %s |' % (
            r['id'], m.get('edits', [{}])[0].get('file', ''), {True: 'yes', False: 'no', None: '-'}.get(r.get('baseline')),
            'caught' if r['expect'] == 'caught' else 'silent (negative control)', '; '.join(res), (m.get('note', '') or '').replace('|', '/')))
    out += ['', '%d mutants, %d (mutant, check) outcomes, %d as expected.' % (len(rows), n, n_ok)]
    open(V + '/mutants/RESULTS.md', 'w').write('\n'.join(out) + '\n')


def seeded_table():
    out = ['# Seeded changes', '',
           'Each directory holds a change to rvanvenetie/stbem written by an independent sub-agent that was given only one property record and a scratch',
           'worktree of `/repo` (nothing from `/verif`): `patch.diff`, the demonstration `demo.py` (exit 0 without, exit 1 with the change), `notes.md` by the',
           'author, and `meta.json` (what it breaks, what it needs to manifest, how it was confirmed, which checks catch it). Every change leaves the',
           "repository's 43 stable tests passing. Confirm / re-run with `tools/seedcheck.sh seeded/<id> <checks...>`.", '',
           '| id | property | change | needs | first run of the checks | caught by |', '|---|---|---|---|---|---|']
    for d in sorted(os.listdir(V + '/seeded')):
        f = os.path.join(V, 'seeded', d, 'meta.json')
        if not os.path.exists(f):
            continue
        m = json.load(open(f))
        out.append('| %s | %s | %s | %s | %s | %s |' % (d, m['property'], m['change'].replace('|', '/'), m['needs_to_manifest'].replace('|', '/'),
                   m['first_run'].replace('|', '/'), '; '.join('%s: %s' % kv for kv in m['caught_by'].items()).replace('|', '/')))
    open(V + '/seeded/README.md', 'w').write('\n'.join(out) + '\n')


if __name__ == '__main__':
    mutants_table()
    seeded_table()
