#!/bin/bash
# tools/seedcheck.sh <dir with patch.diff + demo.py> <check ids...>
# Confirms a seeded change in a scratch worktree (applies, baseline still passes, demo passes without / fails with it)
# and runs the given checks against the changed tree (STBEM_REPO = the scratch worktree). Removes the worktree afterwards.
D=$(cd "$1" && pwd); shift
WT=/tmp/seedchk-$$
git -C /repo worktree add --detach $WT HEAD -q || exit 2
trap 'git -C /repo worktree remove --force $WT' EXIT
( cd $WT && timeout 300 /venv/bin/python $D/demo.py >/tmp/seedchk-$$.clean 2>&1 ); echo "demo on unchanged tree: rc=$? $(tail -1 /tmp/seedchk-$$.clean | cut -c1-150)"
git -C $WT apply $D/patch.diff || { echo "PATCH DOES NOT APPLY"; exit 2; }
( cd $WT && timeout 300 /venv/bin/python $D/demo.py >/tmp/seedchk-$$.pat 2>&1 ); echo "demo on changed tree:   rc=$? $(grep -m1 -i fail /tmp/seedchk-$$.pat | cut -c1-200)"
STBEM_REPO=$WT /verif/tools/baseline.sh | tail -2
for p in "$@"; do
  STBEM_REPO=$WT /verif/check $p --tier ${SEED_TIER:-quick} --no-evidence 2>&1 | grep -v "^KNOWN" | grep -E "^VIOLATION|mechanism|^C[0-9]" | cut -c1-220 | head -8
  echo "   -> $p rc=${PIPESTATUS[0]}"
done
rm -f /tmp/seedchk-$$.clean /tmp/seedchk-$$.pat
