#!/bin/bash
# Runs the repository's baseline suite (hooks off) and checks that the 43 stable tests pass.
REPO=${STBEM_REPO:-/repo}
OUT=$(mktemp -d /var/tmp/stbem-baseline.XXXXXX)
trap 'rm -rf "$OUT"' EXIT
# a mutant may make a test spin or allocate without bound: cap time and address space
ulimit -v 12000000
cd "$REPO" && env -u STBEM_VERIF PYTHONDONTWRITEBYTECODE=1 timeout -k 5 ${BASELINE_TIMEOUT:-420} /venv/bin/python -m pytest -ra -q -p no:cacheprovider --timeout=900 --continue-on-collection-errors --junitxml="$OUT/j.xml" >"$OUT/log" 2>&1
[ -s "$OUT/j.xml" ] || { echo "baseline did not finish (timeout / memory cap)"; exit 1; }
/venv/bin/python - "$OUT/j.xml" <<'PY'
import sys, json, xml.etree.ElementTree as ET
base = json.load(open('/root/.vp/BASELINE.json'))['stable_pass']
ok = set()
for tc in ET.parse(sys.argv[1]).getroot().iter('testcase'):
    if not any(c.tag in ('failure', 'error', 'skipped') for c in tc):
        ok.add(tc.get('classname') + '::' + tc.get('name'))
missing = [b for b in base if b not in ok]
print('passed total', len(ok), 'baseline passed', len(base) - len(missing), '/', len(base))
if missing:
    print('MISSING', missing); sys.exit(1)
PY
